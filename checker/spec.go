package main

// Specification tables for engine E2, transcribed from IPMI v2.0 (rev 1.1)
// and DCMI 1.5. The PDFs shipped in the repository are git-lfs pointers and
// there is no network, so every entry below was written from the
// specification's tables as referenced (section numbers in comments), with
// byte numbers converted to zero-based offsets within the layer (request data
// byte 1 = offset 0; response data byte 2, the first after the completion
// code, = offset 0). A field is listed only where its position could be
// justified independently of the code under test; everything else is
// reported as "not covered" in the evidence.
//
// Notation (the canonical rendering of engine E2):
//   dK[h:l]           bits h..l of wire byte K (decoders)
//   f:Field[h:l]      bits of a struct field (serialisers)
//   {a,b}             concatenation, most significant first; 0bxxx literal bits
//   sextN(x)          sign extension from N bits;  bcd(x), ravgByte:…  tagged helpers
//   copy(x)           byte-wise copy;  d[a:b] a window of the input
//   a | b | c         the set of values over the layer's success paths

type layerSpec struct {
	Pkg, Type, Method string
	Shape             string           // optional: name of the shape these expectations apply to
	Ints              map[string]int64 // shape discriminators (receiver field values)
	Bools             map[string]bool
	Widths            map[string]int      // wire width of fields narrower than their Go type
	Want              map[string][]string // name → set of renderings over all success paths
	Ref               string
}

// ---------------------------------------------------------------- requests (C06)

var requestSpecs = []layerSpec{
	{Pkg: "pkg/ipmi", Type: "GetChannelAuthenticationCapabilitiesReq", Method: "SerializeTo", Ref: "IPMI v2.0 §22.13",
		Widths: map[string]int{"Channel": 4, "MaxPrivilegeLevel": 4},
		Want: map[string][]string{
			"len pre": {"2"},
			"pre[0]":  {"f:Channel[3:0]", "{0b1000,f:Channel[3:0]}"}, // [7] extended data, [6:4] reserved, [3:0] channel
			"pre[1]":  {"f:MaxPrivilegeLevel[3:0]"},
		}},
	{Pkg: "pkg/ipmi", Type: "GetChannelCipherSuitesReq", Method: "SerializeTo", Ref: "IPMI v2.0 §22.15",
		Want: map[string][]string{
			"len pre": {"3"},
			"pre[0]":  {"f:Channel[3:0]"},
			"pre[1]":  {"f:PayloadType[5:0]"},
			"pre[2]":  {"{0b10,f:ListIndex[5:0]}"}, // [7] 1b list algorithms by cipher suite, [6] reserved, [5:0] list index
		}},
	{Pkg: "pkg/ipmi", Type: "GetSessionInfoReq", Method: "SerializeTo", Ref: "IPMI v2.0 §22.20",
		Want: map[string][]string{
			"len pre": {"1", "2", "5"},
			"pre[0]":  {"f:Index[7:0]"},
			"pre[1]":  {"<unset>", "f:Handle[7:0]", "f:ID[7:0]"},
			"pre[2]":  {"<unset>", "f:ID[15:8]"},
			"pre[3]":  {"<unset>", "f:ID[23:16]"},
			"pre[4]":  {"<unset>", "f:ID[31:24]"},
		}},
	{Pkg: "pkg/ipmi", Type: "SetSessionPrivilegeLevelReq", Method: "SerializeTo", Ref: "IPMI v2.0 §22.18",
		Want: map[string][]string{"len pre": {"1"}, "pre[0]": {"f:PrivilegeLevel[3:0]"}}},
	{Pkg: "pkg/ipmi", Type: "CloseSessionReq", Method: "SerializeTo", Ref: "IPMI v2.0 §22.19",
		Want: map[string][]string{
			"len pre": {"4", "5"},
			"pre[0]":  {"f:ID[7:0]"}, "pre[1]": {"f:ID[15:8]"}, "pre[2]": {"f:ID[23:16]"}, "pre[3]": {"f:ID[31:24]"},
			"pre[4]": {"<unset>", "f:Handle[7:0]"},
		}},
	// a flag of the request decides a bit or a byte: per value of the flag
	{Pkg: "pkg/ipmi", Type: "GetChannelAuthenticationCapabilitiesReq", Method: "SerializeTo", Shape: "extended data requested", Bools: map[string]bool{"ExtendedData": true}, Widths: map[string]int{"Channel": 4, "MaxPrivilegeLevel": 4}, Ref: "IPMI v2.0 §22.13 (bit 7: 1b = get IPMI v2.0+ extended data)",
		Want: map[string][]string{"pre[0]": {"{0b1000,f:Channel[3:0]}"}}},
	{Pkg: "pkg/ipmi", Type: "GetChannelAuthenticationCapabilitiesReq", Method: "SerializeTo", Shape: "v1.5 data only", Bools: map[string]bool{"ExtendedData": false}, Widths: map[string]int{"Channel": 4, "MaxPrivilegeLevel": 4}, Ref: "IPMI v2.0 §22.13 (bit 7: 0b = backward compatible)",
		Want: map[string][]string{"pre[0]": {"f:Channel[3:0]"}}},
	{Pkg: "pkg/ipmi", Type: "AuthenticationPayload", Method: "Serialise", Shape: "wildcard", Bools: map[string]bool{"Wildcard": true}, Widths: map[string]int{"Algorithm": 6}, Ref: "IPMI v2.0 §13.17 (payload length 00h = any algorithm)",
		Want: map[string][]string{"app[3]": {"0"}, "app[4]": {"0"}}},
	{Pkg: "pkg/ipmi", Type: "AuthenticationPayload", Method: "Serialise", Shape: "specific algorithm", Bools: map[string]bool{"Wildcard": false}, Widths: map[string]int{"Algorithm": 6}, Ref: "IPMI v2.0 §13.17 (payload length 08h, algorithm in byte 5)",
		Want: map[string][]string{"app[3]": {"8"}, "app[4]": {"f:Algorithm[5:0]"}}},
	{Pkg: "pkg/ipmi", Type: "IntegrityPayload", Method: "Serialise", Shape: "wildcard", Bools: map[string]bool{"Wildcard": true}, Widths: map[string]int{"Algorithm": 6}, Ref: "IPMI v2.0 §13.17",
		Want: map[string][]string{"app[3]": {"0"}, "app[4]": {"0"}}},
	{Pkg: "pkg/ipmi", Type: "IntegrityPayload", Method: "Serialise", Shape: "specific algorithm", Bools: map[string]bool{"Wildcard": false}, Widths: map[string]int{"Algorithm": 6}, Ref: "IPMI v2.0 §13.17",
		Want: map[string][]string{"app[3]": {"8"}, "app[4]": {"f:Algorithm[5:0]"}}},
	{Pkg: "pkg/ipmi", Type: "ConfidentialityPayload", Method: "Serialise", Shape: "wildcard", Bools: map[string]bool{"Wildcard": true}, Widths: map[string]int{"Algorithm": 6}, Ref: "IPMI v2.0 §13.17",
		Want: map[string][]string{"app[3]": {"0"}, "app[4]": {"0"}}},
	{Pkg: "pkg/ipmi", Type: "ConfidentialityPayload", Method: "Serialise", Shape: "specific algorithm", Bools: map[string]bool{"Wildcard": false}, Widths: map[string]int{"Algorithm": 6}, Ref: "IPMI v2.0 §13.17",
		Want: map[string][]string{"app[3]": {"8"}, "app[4]": {"f:Algorithm[5:0]"}}},
	// which optional bytes follow is decided by a field of the request: per shape
	{Pkg: "pkg/ipmi", Type: "CloseSessionReq", Method: "SerializeTo", Shape: "by session ID", Ints: map[string]int64{"ID": 1}, Ref: "IPMI v2.0 §22.19 (the handle byte is present only if the session ID is 00000000h)",
		Want: map[string][]string{"len pre": {"4"}}},
	{Pkg: "pkg/ipmi", Type: "CloseSessionReq", Method: "SerializeTo", Shape: "by session handle", Ints: map[string]int64{"ID": 0}, Ref: "IPMI v2.0 §22.19 (the handle byte is present only if the session ID is 00000000h)",
		Want: map[string][]string{"len pre": {"5"}, "pre[4]": {"f:Handle[7:0]"}}},
	{Pkg: "pkg/ipmi", Type: "GetSessionInfoReq", Method: "SerializeTo", Shape: "current / N-th active session", Ints: map[string]int64{"Index": 0}, Ref: "IPMI v2.0 §22.20 (no further bytes unless the index is FEh or FFh)",
		Want: map[string][]string{"len pre": {"1"}}},
	{Pkg: "pkg/ipmi", Type: "GetSessionInfoReq", Method: "SerializeTo", Shape: "by session handle", Ints: map[string]int64{"Index": 0xfe}, Ref: "IPMI v2.0 §22.20 (index FEh: session handle follows)",
		Want: map[string][]string{"len pre": {"2"}, "pre[1]": {"f:Handle[7:0]"}}},
	{Pkg: "pkg/ipmi", Type: "GetSessionInfoReq", Method: "SerializeTo", Shape: "by session ID", Ints: map[string]int64{"Index": 0xff}, Ref: "IPMI v2.0 §22.20 (index FFh: session ID follows, LS byte first)",
		Want: map[string][]string{"len pre": {"5"}, "pre[1]": {"f:ID[7:0]"}, "pre[2]": {"f:ID[15:8]"}, "pre[3]": {"f:ID[23:16]"}, "pre[4]": {"f:ID[31:24]"}}},
	{Pkg: "pkg/ipmi", Type: "ChassisControlReq", Method: "SerializeTo", Ref: "IPMI v2.0 §28.3",
		Widths: map[string]int{"ChassisControl": 4},
		Want:   map[string][]string{"len pre": {"1"}, "pre[0]": {"f:ChassisControl[3:0]"}}},
	{Pkg: "pkg/ipmi", Type: "GetSDRReq", Method: "SerializeTo", Ref: "IPMI v2.0 §33.12",
		Want: map[string][]string{
			"len pre": {"6"},
			"pre[0]":  {"f:ReservationID[7:0]"}, "pre[1]": {"f:ReservationID[15:8]"},
			"pre[2]": {"f:RecordID[7:0]"}, "pre[3]": {"f:RecordID[15:8]"},
			"pre[4]": {"f:Offset[7:0]"}, "pre[5]": {"f:Length[7:0]"},
		}},
	{Pkg: "pkg/ipmi", Type: "GetSensorReadingReq", Method: "SerializeTo", Ref: "IPMI v2.0 §35.14",
		Want: map[string][]string{"len pre": {"1"}, "pre[0]": {"f:Number[7:0]"}}},
	{Pkg: "pkg/ipmi", Type: "OpenSessionReq", Method: "SerializeTo", Ref: "IPMI v2.0 §13.17",
		Want: map[string][]string{
			"len pre": {"8"},
			"pre[0]":  {"f:Tag[7:0]"}, "pre[1]": {"f:MaxPrivilegeLevel[3:0]"}, "pre[2]": {"0"}, "pre[3]": {"0"},
			"pre[4]": {"f:SessionID[7:0]"}, "pre[5]": {"f:SessionID[15:8]"}, "pre[6]": {"f:SessionID[23:16]"}, "pre[7]": {"f:SessionID[31:24]"},
		}},
	{Pkg: "pkg/ipmi", Type: "AuthenticationPayload", Method: "Serialise", Ref: "IPMI v2.0 §13.17 table 13-9 (payload type 00h)",
		Widths: map[string]int{"Algorithm": 6},
		Want: map[string][]string{"len app": {"8"}, "app[0]": {"0"}, "app[1]": {"0"}, "app[2]": {"0"}, "app[3]": {"0", "8"},
			"app[4]": {"0", "f:Algorithm[5:0]"}, "app[5]": {"0"}, "app[6]": {"0"}, "app[7]": {"0"}}},
	{Pkg: "pkg/ipmi", Type: "IntegrityPayload", Method: "Serialise", Ref: "IPMI v2.0 §13.17 (payload type 01h)",
		Widths: map[string]int{"Algorithm": 6},
		Want: map[string][]string{"len app": {"8"}, "app[0]": {"1"}, "app[1]": {"0"}, "app[2]": {"0"}, "app[3]": {"0", "8"},
			"app[4]": {"0", "f:Algorithm[5:0]"}, "app[5]": {"0"}, "app[6]": {"0"}, "app[7]": {"0"}}},
	{Pkg: "pkg/ipmi", Type: "ConfidentialityPayload", Method: "Serialise", Ref: "IPMI v2.0 §13.17 (payload type 02h)",
		Widths: map[string]int{"Algorithm": 6},
		Want: map[string][]string{"len app": {"8"}, "app[0]": {"2"}, "app[1]": {"0"}, "app[2]": {"0"}, "app[3]": {"0", "8"},
			"app[4]": {"0", "f:Algorithm[5:0]"}, "app[5]": {"0"}, "app[6]": {"0"}, "app[7]": {"0"}}},
	{Pkg: "pkg/ipmi", Type: "RAKPMessage1", Method: "SerializeTo", Ref: "IPMI v2.0 §13.20",
		Widths: map[string]int{"MaxPrivilegeLevel": 4},
		Want: map[string][]string{
			"pre[0]": {"f:Tag[7:0]"}, "pre[1]": {"0"}, "pre[2]": {"0"}, "pre[3]": {"0"},
			"pre[4]": {"f:ManagedSystemSessionID[7:0]"}, "pre[5]": {"f:ManagedSystemSessionID[15:8]"}, "pre[6]": {"f:ManagedSystemSessionID[23:16]"}, "pre[7]": {"f:ManagedSystemSessionID[31:24]"},
			"pre[8:24]": {"copy(f:RemoteConsoleRandom[0:16])"},
			"pre[24]":   {"f:MaxPrivilegeLevel[3:0]", "{0b1,f:MaxPrivilegeLevel[3:0]}"}, // [4] 1b = name-only lookup
			"pre[25]":   {"0"}, "pre[26]": {"0"},
		}},
	{Pkg: "pkg/ipmi", Type: "RAKPMessage3", Method: "SerializeTo", Ref: "IPMI v2.0 §13.22",
		Want: map[string][]string{
			"pre[0]": {"f:Tag[7:0]"}, "pre[1]": {"f:Status[7:0]"}, "pre[2]": {"0"}, "pre[3]": {"0"},
			"pre[4]": {"f:ManagedSystemSessionID[7:0]"}, "pre[5]": {"f:ManagedSystemSessionID[15:8]"}, "pre[6]": {"f:ManagedSystemSessionID[23:16]"}, "pre[7]": {"f:ManagedSystemSessionID[31:24]"},
			// the key exchange authentication code follows only when the status is OK; a message
			// reporting an error ends after the session ID
			"len pre": {"8", "len(f:AuthCode) +8"},
		}},
	{Pkg: "pkg/dcmi", Type: "GetPowerReadingReq", Method: "SerializeTo", Ref: "DCMI 1.5 §6.6.1",
		Want: map[string][]string{"len pre": {"3"}, "pre[0]": {"f:Mode[7:0]"}, "pre[1]": {"0", "ravgByte:f:Period[63:0]()"}, "pre[2]": {"0"}}},
	{Pkg: "pkg/dcmi", Type: "GetDCMISensorInfoReq", Method: "SerializeTo", Ref: "DCMI 1.5 §6.5.2",
		Want: map[string][]string{"len pre": {"4"}, "pre[0]": {"f:Type[7:0]"}, "pre[1]": {"f:Entity[7:0]"}, "pre[2]": {"f:Instance[7:0]"}, "pre[3]": {"0", "f:InstanceStart[7:0]"}}},
	{Pkg: "pkg/dcmi", Type: "GetDCMICapabilitiesInfoReq", Method: "SerializeTo", Ref: "DCMI 1.5 §6.1.1",
		Want: map[string][]string{"len pre": {"1"}, "pre[0]": {"f:Parameter[7:0]"}}},
}

// ---------------------------------------------------------------- responses (C07)

var responseSpecs = []layerSpec{
	{Pkg: "pkg/ipmi", Type: "GetChannelAuthenticationCapabilitiesRsp", Method: "DecodeFromBytes", Ref: "IPMI v2.0 §22.13",
		Want: map[string][]string{
			"Channel": {"d0[7:0]"}, "ExtendedCapabilities": {"d1[7]"}, "AuthenticationTypeOEM": {"d1[5]"}, "AuthenticationTypePassword": {"d1[4]"},
			"AuthenticationTypeMD5": {"d1[2]"}, "AuthenticationTypeMD2": {"d1[1]"}, "AuthenticationTypeNone": {"d1[0]"},
			"TwoKeyLogin": {"d2[5]"}, "PerMessageAuthentication": {"d2[4]"}, "UserLevelAuthentication": {"d2[3]"},
			"NonNullUsernamesEnabled": {"d2[2]"}, "NullUsernamesEnabled": {"d2[1]"}, "AnonymousLoginEnabled": {"d2[0]"},
			"SupportsV2": {"d3[1]"}, "SupportsV1": {"d3[0]"}, "OEM": {"{d6[7:0],d5[7:0],d4[7:0]}"}, "OEMData": {"d7[7:0]"},
			"BaseLayer.Contents": {"d[0:8]"},
		}},
	{Pkg: "pkg/ipmi", Type: "GetDeviceIDRsp", Method: "DecodeFromBytes", Ref: "IPMI v2.0 §20.1",
		Want: map[string][]string{
			"ID": {"d0[7:0]"}, "ProvidesSDRs": {"d1[7]"}, "Revision": {"d1[3:0]"}, "Available": {"!d2[7]"}, "MajorFirmwareRevision": {"d2[6:0]"},
			"MinorFirmwareRevision": {"bcd(d3[7:0])"}, "MajorIPMIVersion": {"d4[3:0]"}, "MinorIPMIVersion": {"d4[7:4]"},
			"SupportsChassisDevice": {"d5[7]"}, "SupportsBridgeDevice": {"d5[6]"}, "SupportsIPMBEventGeneratorDevice": {"d5[5]"}, "SupportsIPMBEventReceiverDevice": {"d5[4]"},
			"SupportsFRUInventoryDevice": {"d5[3]"}, "SupportsSELDevice": {"d5[2]"}, "SupportsSDRRepositoryDevice": {"d5[1]"}, "SupportsSensorDevice": {"d5[0]"},
			"Manufacturer": {"{d8[7:0],d7[7:0],d6[7:0]}"}, "Product": {"{d10[7:0],d9[7:0]}"},
			// optional tail of up to four bytes: whatever is there is copied, the rest stays zero
			"AuxiliaryFirmwareRevision?": {"copy(d[11:+len(data) -11])", "nil"},
		}},
	{Pkg: "pkg/ipmi", Type: "GetChassisStatusRsp", Method: "DecodeFromBytes", Ref: "IPMI v2.0 §28.2",
		Want: map[string][]string{
			"PowerRestorePolicy": {"d0[6:5]"}, "PowerControlFault": {"d0[4]"}, "PowerFault": {"d0[3]"}, "Interlock": {"d0[2]"}, "PowerOverload": {"d0[1]"}, "PoweredOn": {"d0[0]"},
			"PoweredOnByIPMI": {"d1[4]"}, "LastPowerDownFault": {"d1[3]"}, "LastPowerDownInterlock": {"d1[2]"}, "LastPowerDownOverload": {"d1[1]"}, "LastPowerDownSupplyFailure": {"d1[0]"},
			"CoolingFault": {"d2[3]"}, "DriveFault": {"d2[2]"}, "Lockout": {"d2[1]"}, "Intrusion": {"d2[0]"},
			"StandbyButtonDisableAllowed": {"d3[7]", "false"}, "DiagnosticInterruptButtonDisableAllowed": {"d3[6]", "false"}, "ResetButtonDisableAllowed": {"d3[5]", "false"}, "PowerOffButtonDisableAllowed": {"d3[4]", "false"},
			"StandbyButtonDisabled": {"d3[3]", "false"}, "DiagnosticInterruptButtonDisabled": {"d3[2]", "false"}, "ResetButtonDisabled": {"d3[1]", "false"}, "PowerOffButtonDisabled": {"d3[0]", "false"},
			"BaseLayer.Contents": {"d[0:3]", "d[0:4]"},
		}},
	{Pkg: "pkg/ipmi", Type: "GetSystemGUIDRsp", Method: "DecodeFromBytes", Ref: "IPMI v2.0 §22.14",
		Want: map[string][]string{"GUID": {"copy(d[0:16])"}, "BaseLayer.Contents": {"d[0:16]"}}},
	{Pkg: "pkg/ipmi", Type: "GetSensorReadingRsp", Method: "DecodeFromBytes", Ref: "IPMI v2.0 §35.14",
		Want: map[string][]string{"Reading": {"d0[7:0]"}, "EventMessagesEnabled": {"d1[7]"}, "ScanningEnabled": {"d1[6]"}, "ReadingUnavailable": {"d1[5]"}}},
	{Pkg: "pkg/ipmi", Type: "GetSDRRepositoryInfoRsp", Method: "DecodeFromBytes", Ref: "IPMI v2.0 §33.9",
		Want: map[string][]string{
			"Records": {"{d2[7:0],d1[7:0]}"}, "FreeSpace": {"{d4[7:0],d3[7:0]}"}, "Overflow": {"d13[7]"},
			// 32-bit unsigned seconds since the epoch, LS byte first (§37: 0xFFFFFFFF = unspecified)
			"LastAddition": {"unix:{d8[7:0],d7[7:0],d6[7:0],d5[7:0]}"}, "LastErase": {"unix:{d12[7:0],d11[7:0],d10[7:0],d9[7:0]}"},
			"SupportsModalUpdate": {"d13[6]"}, "SupportsNonModalUpdate": {"d13[5]"}, "SupportsDelete": {"d13[3]"}, "SupportsPartialAdd": {"d13[2]"}, "SupportsReserve": {"d13[1]"}, "SupportsGetAllocationInformation": {"d13[0]"},
			"BaseLayer.Contents": {"d[0:14]"},
		}},
	{Pkg: "pkg/ipmi", Type: "ReserveSDRRepositoryRsp", Method: "DecodeFromBytes", Ref: "IPMI v2.0 §33.11",
		Want: map[string][]string{"ReservationID": {"{d1[7:0],d0[7:0]}"}, "BaseLayer.Contents": {"d[0:2]"}}},
	{Pkg: "pkg/ipmi", Type: "GetSDRRsp", Method: "DecodeFromBytes", Ref: "IPMI v2.0 §33.12",
		Want: map[string][]string{"Next": {"{d1[7:0],d0[7:0]}"}, "BaseLayer.Contents": {"d[0:2]"}}},
	{Pkg: "pkg/ipmi", Type: "SDR", Method: "DecodeFromBytes", Ref: "IPMI v2.0 §43 (SDR header)",
		Want: map[string][]string{"ID": {"{d1[7:0],d0[7:0]}"}, "Type": {"d3[7:0]"}, "Length": {"d4[7:0]"}, "BaseLayer.Contents": {"d[0:5]"}}},
	{Pkg: "pkg/ipmi", Type: "SetSessionPrivilegeLevelRsp", Method: "DecodeFromBytes", Ref: "IPMI v2.0 §22.18",
		Want: map[string][]string{"PrivilegeLevel": {"d0[3:0]"}}},
	{Pkg: "pkg/ipmi", Type: "FullSensorRecord", Method: "DecodeFromBytes", Ref: "IPMI v2.0 §43.1 (offsets = table byte − 6)",
		Want: map[string][]string{
			"SensorRecordKey.OwnerAddress": {"d0[7:0]"}, "SensorRecordKey.Channel": {"d1[7:4]"}, "SensorRecordKey.OwnerLUN": {"d1[1:0]"}, "SensorRecordKey.Number": {"d2[7:0]"},
			"Entity": {"d3[7:0]"}, "IsContainerEntity": {"d4[7]"}, "Instance": {"d4[6:0]"}, "Ignore": {"d6[7]"}, "SensorType": {"d7[7:0]"}, "OutputType": {"d8[7:0]"},
			"AnalogDataFormat": {"d15[7:6]"}, "RateUnit": {"d15[5:3]"}, "IsPercentage": {"d15[0]"}, "BaseUnit": {"d16[7:0]"}, "ModifierUnit": {"d17[7:0]"}, "Linearisation": {"d18[6:0]"},
			"ConversionFactors.M": {"sext10({d20[7:6],d19[7:0]})"}, "Tolerance": {"d20[5:0]"}, "ConversionFactors.B": {"sext10({d22[7:6],d21[7:0]})"},
			"Accuracy": {"sext10({d23[7:4],d22[5:0]})"}, "AccuracyExp": {"d23[3:2]"}, "Direction": {"d23[1:0]"},
			"ConversionFactors.RExp": {"sext4(d24[7:4])"}, "ConversionFactors.BExp": {"sext4(d24[3:0])"},
			"NormalMinSpecified": {"d25[2]"}, "NormalMaxSpecified": {"d25[1]"}, "NominalReadingSpecified": {"d25[0]"},
			"NominalReading": {"d26[7:0]"}, "NormalMax": {"d27[7:0]"}, "NormalMin": {"d28[7:0]"}, "SensorMax": {"d29[7:0]"}, "SensorMin": {"d30[7:0]"},
		}},
	{Pkg: "pkg/ipmi", Type: "OpenSessionRsp", Method: "DecodeFromBytes", Ref: "IPMI v2.0 §13.18",
		Want: map[string][]string{
			"ManagedSystemSessionID":          {"0", "{d11[7:0],d10[7:0],d9[7:0],d8[7:0]}"},
			"AuthenticationPayload.Algorithm": {"<unset>", "d16[5:0]"}, "IntegrityPayload.Algorithm": {"<unset>", "d24[5:0]"}, "ConfidentialityPayload.Algorithm": {"<unset>", "d32[5:0]"},
		}},
	{Pkg: "pkg/ipmi", Type: "RAKPMessage2", Method: "DecodeFromBytes", Ref: "IPMI v2.0 §13.21",
		Want: map[string][]string{
			"Tag": {"d0[7:0]"}, "Status": {"d1[7:0]"}, "RemoteConsoleSessionID": {"{d7[7:0],d6[7:0],d5[7:0],d4[7:0]}"},
			"ManagedSystemRandom": {"copy(d[8:24])", "nil"}, "ManagedSystemGUID": {"copy(d[24:40])", "nil"}, "AuthCode": {"d[40:+len(data) -40]", "empty"},
		}},
	{Pkg: "pkg/ipmi", Type: "RAKPMessage4", Method: "DecodeFromBytes", Ref: "IPMI v2.0 §13.23",
		Want: map[string][]string{
			"Tag": {"d0[7:0]"}, "Status": {"d1[7:0]"}, "RemoteConsoleSessionID": {"{d7[7:0],d6[7:0],d5[7:0],d4[7:0]}"}, "ICV": {"d[8:+len(data) -8]", "empty"},
		}},
	{Pkg: "pkg/ipmi", Type: "AuthenticationPayload", Method: "Deserialise", Ref: "IPMI v2.0 §13.17", Want: map[string][]string{"Algorithm": {"d4[5:0]"}}},
	{Pkg: "pkg/ipmi", Type: "IntegrityPayload", Method: "Deserialise", Ref: "IPMI v2.0 §13.17", Want: map[string][]string{"Algorithm": {"d4[5:0]"}}},
	{Pkg: "pkg/ipmi", Type: "ConfidentialityPayload", Method: "Deserialise", Ref: "IPMI v2.0 §13.17", Want: map[string][]string{"Algorithm": {"d4[5:0]"}}},
	{Pkg: "pkg/ipmi", Type: "V1Session", Method: "DecodeFromBytes", Ref: "IPMI v2.0 §13.6 (v1.5 format)",
		Want: map[string][]string{
			"AuthType": {"d0[7:0]"}, "Sequence": {"{d4[7:0],d3[7:0],d2[7:0],d1[7:0]}"}, "ID": {"{d8[7:0],d7[7:0],d6[7:0],d5[7:0]}"},
			"AuthCode": {"copy(d[9:25])", "nil"}, "Length": {"d25[7:0]", "d9[7:0]"}, "BaseLayer.Contents": {"d[0:10]", "d[0:26]"},
			// the payload is exactly what the length byte announces — a datagram that is shorter is
			// rejected (with C05's bounds proof), not clamped
			"BaseLayer.Payload": {"d[10:+d9[7:0]]", "d[26:+d25[7:0]]"},
		}},
	{Pkg: "pkg/ipmi", Type: "V2Session", Method: "DecodeFromBytes", Ref: "IPMI v2.0 §13.6 (RMCP+ format)",
		Want: map[string][]string{
			"Encrypted": {"d1[7]"}, "Authenticated": {"d1[6]"}, "PayloadDescriptor.PayloadType": {"d1[5:0]"},
			"PayloadDescriptor.Enterprise": {"0", "{d5[7:0],d4[7:0],d3[7:0],d2[7:0]}"}, "PayloadDescriptor.PayloadID": {"0", "{d7[7:0],d6[7:0]}"},
			"ID":                 {"{d11[7:0],d10[7:0],d9[7:0],d8[7:0]}", "{d5[7:0],d4[7:0],d3[7:0],d2[7:0]}"},
			"Sequence":           {"{d15[7:0],d14[7:0],d13[7:0],d12[7:0]}", "{d9[7:0],d8[7:0],d7[7:0],d6[7:0]}"},
			"Length":             {"{d11[7:0],d10[7:0]}", "{d17[7:0],d16[7:0]}"},
			"BaseLayer.Contents": {"d[0:12]", "d[0:18]"},
			"BaseLayer.Payload":  {"d[12:+{d11[7:0],d10[7:0]}]", "d[18:+{d17[7:0],d16[7:0]}]"},
		}},
	{Pkg: "pkg/ipmi", Type: "Message", Method: "DecodeFromBytes", Ref: "IPMI v2.0 §13.8 / table 13-8",
		Want: map[string][]string{
			"RemoteAddress": {"d0[7:0]"}, "Operation.Function": {"d1[7:2]"}, "RemoteLUN": {"d1[1:0]"}, "Checksum1": {"d2[7:0]"},
			"LocalAddress": {"d3[7:0]"}, "Sequence": {"d4[7:2]"}, "LocalLUN": {"d4[1:0]"}, "Operation.Command": {"d5[7:0]"},
			"CompletionCode":       {"0", "d6[7:0]"},
			"Operation.Body":       {"0", "d6[7:0]", "d7[7:0]"},
			"Operation.Enterprise": {"0", "{d8[7:0],d7[7:0],d6[7:0]}", "{d9[7:0],d8[7:0],d7[7:0]}"},
			"BaseLayer.Contents":   {"d[0:10]", "d[0:6]", "d[0:7]", "d[0:8]", "d[0:9]"},
		}},
	{Pkg: "pkg/dcmi", Type: "GetPowerReadingRsp", Method: "DecodeFromBytes", Ref: "DCMI 1.5 §6.6.1",
		Want: map[string][]string{
			"Instantaneous": {"{d1[7:0],d0[7:0]}"}, "Min": {"{d3[7:0],d2[7:0]}"}, "Max": {"{d5[7:0],d4[7:0]}"}, "Avg": {"{d7[7:0],d6[7:0]}"},
			"Timestamp": {"unix:{d11[7:0],d10[7:0],d9[7:0],d8[7:0]}"},
			"Period":    {"lin(1000000·{d15[7:0],d14[7:0],d13[7:0],d12[7:0]})"}, "Active": {"d16[6]"},
		}},
	{Pkg: "pkg/ipmi", Type: "GetChannelCipherSuitesRsp", Method: "DecodeFromBytes", Ref: "IPMI v2.0 §22.15 (channel number, then up to 16 bytes of cipher suite record data, verbatim)",
		Want: map[string][]string{"Channel": {"d0[7:0]"}, "CipherSuiteRecordsChunk": {"d[1:17]", "d[1:+len(data) -1]"}}},
	{Pkg: "pkg/dcmi", Type: "GetDCMISensorInfoRsp", Method: "DecodeFromBytes", Ref: "DCMI 1.5 §6.5.2",
		Want: map[string][]string{"Instances": {"d0[7:0]"}, "BaseLayer.Contents": {"d[0:+2·d1[7:0] +2]"}}},
	{Pkg: "pkg/dcmi", Type: "getDCMICapabilitiesInfoRspHeader", Method: "Decode", Ref: "DCMI 1.5 §6.1.1",
		Want: map[string][]string{"MajorVersion": {"d0[7:0]"}, "MinorVersion": {"d1[7:0]"}, "Revision": {"d2[7:0]"}}},
	{Pkg: "pkg/dcmi", Type: "GetDCMICapabilitiesInfoOptionalPlatformAttrsRsp", Method: "DecodeFromBytes", Ref: "DCMI 1.5 table 6-4 (parameter 3)",
		Want: map[string][]string{"PowerManagementSlaveAddress": {"d3[7:1]"}, "PowerManagementChannel": {"d4[7:4]"}, "PowerManagementRevision": {"d4[3:0]"}, "BaseLayer.Contents": {"d[0:5]"}}},
	{Pkg: "pkg/dcmi", Type: "GetDCMICapabilitiesInfoManageabilityAccessAttrsRsp", Method: "DecodeFromBytes", Ref: "DCMI 1.5 table 6-5 (parameter 4)",
		Want: map[string][]string{"PrimaryLANOOBChannel": {"d3[7:0]"}, "SecondaryLANOOBChannel": {"d4[7:0]"}, "SerialOOBChannel": {"d5[7:0]"}, "BaseLayer.Contents": {"d[0:6]"}}},
}

// ---------------------------------------------------------------- shaped serialisers (C06, C03)

var msgWidths = map[string]int{"RemoteLUN": 2, "LocalLUN": 2, "Sequence": 6, "Operation.Function": 6}

func msgCommon(extra map[string][]string) map[string][]string {
	m := map[string][]string{
		"pre[0]":  {"f:RemoteAddress[7:0]"},
		"pre[1]":  {"{f:Operation.Function[5:0],f:RemoteLUN[1:0]}"}, // NetFn[7:2] / LUN[1:0]
		"pre[2]":  {"checksum:pre[0:2]()", "f:Checksum1[7:0]"},      // checksum over bytes 0..1 (or the caller's when not computing)
		"pre[3]":  {"f:LocalAddress[7:0]"},
		"pre[4]":  {"{f:Sequence[5:0],f:LocalLUN[1:0]}"},
		"pre[5]":  {"f:Operation.Command[7:0]"},
		"app[0]":  {"checksum:buf[3:+len(buffer) -3]()", "f:Checksum2[7:0]"}, // checksum over byte 3 … last data byte
		"len app": {"1"},
	}
	for k, v := range extra {
		m[k] = v
	}
	return m
}

var shapedRequestSpecs = []layerSpec{
	{Pkg: "pkg/ipmi", Type: "Message", Method: "SerializeTo", Shape: "request", Ints: map[string]int64{"Operation.Function": 0x06}, Widths: msgWidths, Ref: "IPMI v2.0 §13.8",
		Want: msgCommon(map[string][]string{"len pre": {"6"}})},
	{Pkg: "pkg/ipmi", Type: "Message", Method: "SerializeTo", Shape: "group extension request", Ints: map[string]int64{"Operation.Function": 0x2c}, Widths: msgWidths, Ref: "IPMI v2.0 §5.1 (group extension: defining body code first)",
		Want: msgCommon(map[string][]string{"len pre": {"7"}, "pre[6]": {"f:Operation.Body[7:0]"}})},
	{Pkg: "pkg/ipmi", Type: "Message", Method: "SerializeTo", Shape: "OEM request", Ints: map[string]int64{"Operation.Function": 0x2e}, Widths: msgWidths, Ref: "IPMI v2.0 §5.1 (OEM/group: IANA, LS byte first)",
		Want: msgCommon(map[string][]string{"len pre": {"9"}, "pre[6]": {"f:Operation.Enterprise[7:0]"}, "pre[7]": {"f:Operation.Enterprise[15:8]"}, "pre[8]": {"f:Operation.Enterprise[23:16]"}})},
	{Pkg: "pkg/ipmi", Type: "Message", Method: "SerializeTo", Shape: "response", Ints: map[string]int64{"Operation.Function": 0x07}, Widths: msgWidths, Ref: "IPMI v2.0 §13.8",
		Want: msgCommon(map[string][]string{"len pre": {"7"}, "pre[6]": {"f:CompletionCode[7:0]"}})},
}

// twoWayDecoderSpecs / v1SerialiserSpecs: the directions of the two-way layers the request and
// response tables do not cover — the decoder of RAKP Message 1 and the v1.5 wrapper's
// serialiser (its length byte is the length of what it wraps, nothing else).
var twoWayDecoderSpecs = []layerSpec{
	{Pkg: "pkg/ipmi", Type: "RAKPMessage1", Method: "DecodeFromBytes", Ref: "IPMI v2.0 §13.20",
		Want: map[string][]string{"Tag": {"d0[7:0]"}, "ManagedSystemSessionID": {"{d7[7:0],d6[7:0],d5[7:0],d4[7:0]}"}, "RemoteConsoleRandom": {"copy(d[8:24])"},
			"MaxPrivilegeLevel": {"d24[3:0]"}, "PrivilegeLevelLookup": {"!d24[4]"}, "Username": {"d[28:+d27[7:0]]"}}},
}

var v1SerialiserSpecs = []layerSpec{
	{Pkg: "pkg/ipmi", Type: "V1Session", Method: "SerializeTo", Shape: "no auth code", Ints: map[string]int64{"AuthType": 0}, Ref: "IPMI v2.0 §13.6 (v1.5 format): payload length = length of the IPMI message that follows",
		Want: map[string][]string{"len pre": {"10"}, "pre[0]": {"f:AuthType[7:0]"}, "pre[9]": {"f:Length[7:0]", "lin(wrap8(len(buffer)))"}}},
	{Pkg: "pkg/ipmi", Type: "V1Session", Method: "SerializeTo", Shape: "with auth code", Ints: map[string]int64{"AuthType": 2}, Ref: "IPMI v2.0 §13.6 (v1.5 format)",
		Want: map[string][]string{"len pre": {"26"}, "pre[0]": {"f:AuthType[7:0]"}, "pre[25]": {"f:Length[7:0]", "lin(wrap8(len(buffer)))"}, "pre[9:25]": {"copy(f:AuthCode[0:16])"}}},
}

var v2Widths = map[string]int{"PayloadDescriptor.PayloadType": 6}

var sessionHeaderSpecs = []layerSpec{
	{Pkg: "pkg/ipmi", Type: "V2Session", Method: "SerializeTo", Shape: "standard payload, encrypted+authenticated", Widths: v2Widths, Ref: "IPMI v2.0 §13.6",
		Ints: map[string]int64{"PayloadDescriptor.PayloadType": 0}, Bools: map[string]bool{"Encrypted": true, "Authenticated": true},
		Want: map[string][]string{
			"len pre": {"12"}, "pre[0]": {"6"}, "pre[1]": {"{0b11,f:PayloadDescriptor.PayloadType[5:0]}"},
			"pre[2]": {"f:ID[7:0]"}, "pre[3]": {"f:ID[15:8]"}, "pre[4]": {"f:ID[23:16]"}, "pre[5]": {"f:ID[31:24]"},
			"pre[6]": {"f:Sequence[7:0]"}, "pre[7]": {"f:Sequence[15:8]"}, "pre[8]": {"f:Sequence[23:16]"}, "pre[9]": {"f:Sequence[31:24]"},
		}},
	{Pkg: "pkg/ipmi", Type: "V2Session", Method: "SerializeTo", Shape: "standard payload, session-less", Widths: v2Widths, Ref: "IPMI v2.0 §13.6",
		Ints: map[string]int64{"PayloadDescriptor.PayloadType": 0x10}, Bools: map[string]bool{"Encrypted": false, "Authenticated": false},
		Want: map[string][]string{
			"len pre": {"12"}, "pre[0]": {"6"}, "pre[1]": {"f:PayloadDescriptor.PayloadType[5:0]"},
			"pre[2]": {"f:ID[7:0]"}, "pre[3]": {"f:ID[15:8]"}, "pre[4]": {"f:ID[23:16]"}, "pre[5]": {"f:ID[31:24]"},
			"pre[6]": {"f:Sequence[7:0]"}, "pre[7]": {"f:Sequence[15:8]"}, "pre[8]": {"f:Sequence[23:16]"}, "pre[9]": {"f:Sequence[31:24]"},
		}},
	{Pkg: "pkg/ipmi", Type: "V2Session", Method: "SerializeTo", Shape: "OEM payload", Widths: v2Widths, Ref: "IPMI v2.0 §13.6",
		Ints: map[string]int64{"PayloadDescriptor.PayloadType": 2}, Bools: map[string]bool{"Encrypted": false, "Authenticated": false},
		Want: map[string][]string{
			"len pre": {"18"}, "pre[0]": {"6"}, "pre[1]": {"f:PayloadDescriptor.PayloadType[5:0]"},
			"pre[2]": {"f:PayloadDescriptor.Enterprise[7:0]"}, "pre[3]": {"f:PayloadDescriptor.Enterprise[15:8]"}, "pre[4]": {"f:PayloadDescriptor.Enterprise[23:16]"}, "pre[5]": {"f:PayloadDescriptor.Enterprise[31:24]"},
			"pre[6]": {"f:PayloadDescriptor.PayloadID[7:0]"}, "pre[7]": {"f:PayloadDescriptor.PayloadID[15:8]"},
			"pre[8]": {"f:ID[7:0]"}, "pre[9]": {"f:ID[15:8]"}, "pre[10]": {"f:ID[23:16]"}, "pre[11]": {"f:ID[31:24]"},
			"pre[12]": {"f:Sequence[7:0]"}, "pre[13]": {"f:Sequence[15:8]"}, "pre[14]": {"f:Sequence[23:16]"}, "pre[15]": {"f:Sequence[31:24]"},
		}},
}

// specsFor: the entries of a specification table for the named layer types.
func specsFor(all []layerSpec, types ...string) []layerSpec {
	var out []layerSpec
	for _, sp := range all {
		for _, t := range types {
			if sp.Type == t {
				out = append(out, sp)
			}
		}
	}
	return out
}
