#!/usr/bin/env python3
"""Regenerates the generated parts of DESIGN.md from what the checks wrote:
  * the per-property rule list of §4 (from evidence/*.json), between
    <!-- RULES-BEGIN --> and <!-- RULES-END -->
  * the seeded-change table of §7.4 (from seeded/TABLE.md), between
    <!-- SEEDS-BEGIN --> and <!-- SEEDS-END -->
Run after the checks have been run against /repo (evidence is rewritten by every run)."""
import json, glob, os, re

D = "/verif/DESIGN.md"
s = open(D).read()

rows = []
for f in sorted(glob.glob("/verif/evidence/C*.json")):
    d = json.load(open(f))
    c = d["coverage"]
    pid = d["property_id"]
    rows.append(f"**{pid}** — {c.get('obligations')} obligations ({c.get('distinct_nontrivial', '?')} distinct constructs), {len(c.get('functions_analysed') or [])} functions, {d.get('wall_s', '?')} s ({d.get('tier')})\n")
    for r in c.get("rules") or []:
        name = r["name"].split(".", 1)[-1]
        doc = (r.get("doc") or "").strip()
        rows.append(f"* `{name}` ({r.get('instances')} instances, minimum {r.get('minimum')}): {doc}")
    nd = c.get("not_decided") or []
    if nd:
        rows.append("* *not decided:* " + "; ".join(nd))
    rows.append("")
block = "\n".join(rows)


def put(s, begin, end, body):
    if begin not in s:
        return s
    a = s.index(begin) + len(begin)
    b = s.index(end)
    return s[:a] + "\n" + body + "\n" + s[b:]


s = put(s, "<!-- RULES-BEGIN -->", "<!-- RULES-END -->", block)
t = "/verif/seeded/TABLE.md"
if os.path.exists(t):
    body = open(t).read()
    body = re.sub(r"^# .*\n", "", body, count=1)
    s = put(s, "<!-- SEEDS-BEGIN -->", "<!-- SEEDS-END -->", body.strip())
open(D, "w").write(s)
print("DESIGN.md regenerated parts updated")
