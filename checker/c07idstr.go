package main

import (
	"fmt"
	"go/token"
	"go/types"
	"sort"
	"strings"

	"golang.org/x/tools/go/ssa"
)

// checkIDStringHeader: the Full Sensor Record's ID string is introduced by a type/length
// byte (IPMI v2.0 §43.15; byte 48 of the record, offset 42 after the header): bits [7:6]
// select the encoding, bits [4:0] give the number of characters, and the string's bytes
// follow at offset 43. Neither value ends up in a field, so the layout table does not see
// them: the rule reads, on every success path of the decoder (engine E2), what the encoding
// lookup is called on and what the string decoder is handed.
func checkIDStringHeader(c *Ctx, r *Report) {
	r.Rule("id-string-header", "the Full Sensor Record's ID string is decoded with the encoding in bits [7:6] and the character count in bits [4:0] of the type/length byte (offset 42), from the bytes at offset 43; the decoded string is what Identity holds", 3)
	fn := c.Method("pkg/ipmi", "FullSensorRecord", "DecodeFromBytes")
	if fn == nil {
		r.Lost("ipmi.FullSensorRecord.DecodeFromBytes")
		return
	}
	name := "FullSensorRecord.DecodeFromBytes"
	enc := c.Named("pkg/ipmi", "StringEncoding")
	dec := c.Named("pkg/ipmi", "StringDecoder")
	if enc == nil || dec == nil {
		r.Lost("ipmi.StringEncoding / ipmi.StringDecoder")
		return
	}
	returnsDecoder := func(sig *types.Signature) bool {
		if sig.Results().Len() < 1 {
			return false
		}
		n, ok := sig.Results().At(0).Type().(*types.Named)
		return ok && n.Obj() == dec.Obj()
	}
	evs, why := extractEventsNamed(c, fn, nil, func(e *lfEngine, fr *lfFrame, st *lfState) {
		e.onCall = func(fr *lfFrame, st *lfState, x *ssa.Call) {
			cc := &x.Call
			switch {
			case cc.IsInvoke():
				// the string decoder's method: (bytes, count) → (string, consumed, error)
				n, ok := cc.Value.Type().(*types.Named)
				if !ok || n.Obj() != dec.Obj() || len(cc.Args) != 2 {
					return
				}
				st.events = append(st.events, lfEvent{Kind: "call", Name: "decode", Val: e.renderVal(e.val(fr, st, cc.Args[0])) + " | " + e.renderVal(e.val(fr, st, cc.Args[1])), Pos: x.Pos()})
			default:
				f := cc.StaticCallee()
				if f == nil || f.Signature.Recv() == nil || !returnsDecoder(f.Signature) || len(cc.Args) != 1 {
					return
				}
				if n, ok := f.Signature.Recv().Type().(*types.Named); !ok || n.Obj() != enc.Obj() {
					return
				}
				st.events = append(st.events, lfEvent{Kind: "call", Name: "encoding", Val: e.renderVal(e.val(fr, st, cc.Args[0])), Pos: x.Pos()})
			}
		}
	}, nil)
	if why != "" {
		r.Unk(name+"|paths", fn.Pos(), why)
		return
	}
	gotEnc, gotDec := map[string]bool{}, map[string]bool{}
	nOK := 0
	for _, le := range evs {
		if !le.OK {
			continue
		}
		nOK++
		var encs, decs []string
		for _, ev := range le.Events {
			if ev.Kind != "call" {
				continue
			}
			switch ev.Name {
			case "encoding":
				encs = append(encs, ev.Val)
			case "decode":
				decs = append(decs, ev.Val)
			}
		}
		gotEnc[strings.Join(encs, " ; ")] = true
		gotDec[strings.Join(decs, " ; ")] = true
	}
	keys := func(m map[string]bool) string {
		var ks []string
		for k := range m {
			if k == "" {
				k = "<none>"
			}
			ks = append(ks, k)
		}
		sort.Strings(ks)
		return strings.Join(ks, " / ")
	}
	if nOK == 0 {
		r.Unk(name+"|paths", fn.Pos(), "no success path")
		return
	}
	r.Check(len(gotEnc) == 1 && gotEnc["d42[7:6]"], name+"|encoding", fn.Pos(), "decoder looked up for d42[7:6]", fmt.Sprintf("the string decoder is selected by %s, IPMI v2.0 §43.15 says bits [7:6] of the type/length byte (d42[7:6])", keys(gotEnc)))
	wantDec := false
	for k := range gotDec {
		parts := strings.Split(k, " | ")
		wantDec = len(gotDec) == 1 && len(parts) == 2 && strings.HasPrefix(parts[0], "d[43:") && parts[1] == "d42[4:0]"
	}
	r.Check(wantDec, name+"|bytes and count", fn.Pos(), "decoder handed the bytes from offset 43 and the count d42[4:0]", fmt.Sprintf("the string decoder is handed %s, IPMI v2.0 §43.15 says the bytes following the type/length byte (d[43:…]) and its bits [4:0] as the number of characters (d42[4:0])", keys(gotDec)))
	// … and what the decoder returned is what the record's Identity holds
	nStores, okStores := 0, true
	var posSt = fn.Pos()
	viewInstrs(fn, func(in ssa.Instruction) {
		st, ok := in.(*ssa.Store)
		if !ok {
			return
		}
		fa, ok := st.Addr.(*ssa.FieldAddr)
		if !ok {
			return
		}
		f := structField(fa.X.Type(), fa.Field)
		if f == nil || f.Name() != "Identity" || !isPtrTo(fa.X.Type(), c.Named("pkg/ipmi", "FullSensorRecord")) {
			return
		}
		nStores++
		for _, o := range viewOrigins(fn, st.Val) {
			if k, isK := o.(*ssa.Const); isK && k.Value != nil && k.Value.ExactString() == `""` {
				continue // the empty string a helper hands back together with its error
			}
			ex, isEx := o.(*ssa.Extract)
			if !isEx || ex.Index != 0 {
				okStores, posSt = false, st.Pos()
				continue
			}
			call, isCall := ex.Tuple.(*ssa.Call)
			if !isCall || !call.Call.IsInvoke() {
				okStores, posSt = false, st.Pos()
				continue
			}
			if n, isN := call.Call.Value.Type().(*types.Named); !isN || n.Obj() != dec.Obj() {
				okStores, posSt = false, st.Pos()
			}
		}
	})
	r.Check(nStores > 0 && okStores, name+"|Identity", posSt, "Identity is the decoder's result", "the record's Identity is not (only) the string the ID-string decoder returned")
}

// checkDCMIVersionGuards: the layout of a Get DCMI Capabilities Info parameter depends on the
// DCMI specification conformance the BMC reports — major version (byte 0) and minor version
// (byte 1) of the response — and not on the parameter revision (byte 2), which numbers the
// revisions of one parameter independently. Read off the path conditions of every decoder
// whose struct carries the three header fields (engine E2).
func checkDCMIVersionGuards(c *Ctx, r *Report) {
	r.Rule("dcmi-version-guards", "the Get DCMI Capabilities Info decoders choose between the v1.0 and the v1.1/v1.5 layout by major and minor version (bytes 0 and 1), never by the parameter revision (byte 2)", 2)
	tp := c.TPkg("pkg/dcmi")
	if tp == nil {
		r.Lost("pkg/dcmi")
		return
	}
	names := tp.Scope().Names()
	sort.Strings(names)
	for _, n := range names {
		tn, ok := tp.Scope().Lookup(n).(*types.TypeName)
		if !ok {
			continue
		}
		nt, ok := tn.Type().(*types.Named)
		if !ok {
			continue
		}
		st, ok := nt.Underlying().(*types.Struct)
		if !ok {
			continue
		}
		// carries the header: an embedded struct with MajorVersion, MinorVersion and Revision
		carries := false
		for i := 0; i < st.NumFields(); i++ {
			f := st.Field(i)
			if !f.Embedded() {
				continue
			}
			if hs, ok := f.Type().Underlying().(*types.Struct); ok {
				got := map[string]bool{}
				for j := 0; j < hs.NumFields(); j++ {
					got[hs.Field(j).Name()] = true
				}
				if got["MajorVersion"] && got["MinorVersion"] && got["Revision"] {
					carries = true
				}
			}
		}
		if !carries {
			continue
		}
		fn := c.MethodOf(nt, "DecodeFromBytes")
		if fn == nil || fn.Blocks == nil {
			continue
		}
		evs, why := extractEvents(c, fn, nil)
		if why != "" {
			r.Unk(nt.Obj().Name()+".DecodeFromBytes|paths", fn.Pos(), why)
			continue
		}
		usesVersion, usesRevision := false, false
		for _, le := range evs {
			for _, cnd := range le.Cond {
				if strings.Contains(cnd, "d0[") || strings.Contains(cnd, "d1[") {
					usesVersion = true
				}
				if strings.Contains(cnd, "d2[") {
					usesRevision = true
				}
			}
		}
		if !usesVersion && !usesRevision {
			continue // one layout for every version
		}
		r.Check(!usesRevision, nt.Obj().Name()+".DecodeFromBytes|layout guard", fn.Pos(), "guarded by major/minor version only", "the layout is selected by the parameter revision (byte 2): a v1.5 BMC reporting revision 1, or a v1.0 BMC reporting revision 2, is decoded in the wrong layout (DCMI 1.5 §6.1.1: the layout follows the specification conformance in bytes 0 and 1)")
	}
}

// checkRejectedLayersNotAdded: the SDR retrieval (and any user of gopacket.NewPacket) learns
// that a layer was rejected from its absence in the packet. The module's decoder adapters
// therefore add a layer to the packet only on paths on which its DecodeFromBytes returned nil.
func checkRejectedLayersNotAdded(c *Ctx, r *Report) {
	r.Rule("rejected-layers-not-added", "a decoder adapter adds a layer to the packet under construction only after the layer's DecodeFromBytes returned nil", 1)
	for _, fn := range c.LibFuncs() {
		var dec, add []*ssa.Call
		rawInstrs(fn, false, func(in ssa.Instruction) {
			call, ok := in.(*ssa.Call)
			if !ok || !call.Call.IsInvoke() {
				return
			}
			switch call.Call.Method.Name() {
			case "DecodeFromBytes":
				dec = append(dec, call)
			case "AddLayer":
				if pk := call.Call.Method.Pkg(); pk != nil && pk.Path() == "github.com/google/gopacket" {
					add = append(add, call)
				}
			}
		})
		if len(dec) == 0 || len(add) == 0 {
			continue
		}
		name := c.FnName(fn)
		r.Fn(name)
		ok, n := true, 0
		pos := add[0].Pos()
		complete := enumPaths(fn, 1, 20000, func(p CPath) {
			idx := pathIndex(p)
			for _, a := range add {
				at, on := idx[a]
				if !on {
					continue
				}
				n++
				// the decode that precedes it on the path, and what the path found about its error
				// before the layer was added
				found := false
				for _, d := range dec {
					dt, don := idx[d]
					if !don || dt > at {
						continue
					}
					for _, tk := range p.Ifs() {
						it, ion := idx[tk.If]
						if !ion || it > at {
							continue
						}
						op, x, y, neg, isBin := condOf(tk.If.Cond)
						if !isBin || (op != token.NEQ && op != token.EQL) {
							continue
						}
						var e ssa.Value
						if isNilConst(y) {
							e = x
						} else if isNilConst(x) {
							e = y
						}
						if e == nil || !(e == ssa.Value(d) || p.Resolve(e) == ssa.Value(d)) {
							continue
						}
						arm := tk.Arm != neg
						if (op == token.EQL) == arm {
							found = true // found nil before the layer is added
						}
					}
				}
				if !found {
					ok, pos = false, a.Pos()
				}
			}
		})
		if !complete {
			r.Unk(name+"|paths", fn.Pos(), "too many paths")
			continue
		}
		if n == 0 {
			continue
		}
		r.Check(ok, name+"|AddLayer after a successful decode", pos, "the layer is added only on paths that found the decode error nil", "a layer is added to the packet although its DecodeFromBytes may have failed: code that detects rejection by the layer's absence (packet.Layer(T) == nil) takes the half-decoded layer for a valid one")
	}
}
