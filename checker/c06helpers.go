package main

import (
	"go/token"
	"go/types"
	"sort"
	"strings"

	"golang.org/x/tools/go/ssa"
)

// checkHelperRequests: "a body whose fields equal the caller's" for the commands the library
// builds on the caller's behalf (ChassisControl(c), GetSensorReading(n), SetSessionPrivilegeLevel(l),
// the sensor reader's polling command, Close Session). Each field the helper sets in the
// command or its request must be, in the flattened view of the function that builds it, a
// constant, one of that function's parameters, or a field of the same name read from a value
// the function was given (Number ← record.Number); Close Session names the session the BMC
// knows — the session object's RemoteID, never the console's own ID. Commands whose requests
// are driven by a protocol loop (Get SDR, Get Channel Cipher Suites, Get DCMI Sensor Info)
// have rule sets of their own (C14, C16) and are not judged here.
func checkHelperRequests(c *Ctx, r *Report) {
	r.Rule("helper-request-fields", "every field a library helper sets in a command it builds for the caller is a constant, one of the helper's parameters, or the same-named field of a value it was given; Close Session carries the session's RemoteID (the BMC's session ID)", 2)
	cmdNamed := c.Named("pkg/ipmi", "Command")
	if cmdNamed == nil {
		r.Lost("ipmi.Command")
		return
	}
	cmdIface, _ := cmdNamed.Underlying().(*types.Interface)
	if cmdIface == nil {
		r.Lost("ipmi.Command interface")
		return
	}
	own := map[string]bool{"GetSDRCmd": true, "GetChannelCipherSuitesCmd": true, "GetDCMISensorInfoCmd": true}
	seen := map[*ssa.Alloc]bool{}
	for _, root := range c.LibFuncs() {
		if root.Parent() != nil || c.onlySpliced(root) || !c.libFn(root) {
			continue
		}
		root := root
		viewInstrs(root, func(in ssa.Instruction) {
			al, ok := in.(*ssa.Alloc)
			if !ok || seen[al] {
				return
			}
			pt, ok := al.Type().(*types.Pointer)
			if !ok {
				return
			}
			nt, ok := pt.Elem().(*types.Named)
			if !ok || own[nt.Obj().Name()] {
				return
			}
			st, ok := nt.Underlying().(*types.Struct)
			if !ok || !types.Implements(pt, cmdIface) {
				return
			}
			hasReq := false
			for i := 0; i < st.NumFields(); i++ {
				if st.Field(i).Name() == "Req" {
					hasReq = true
				}
			}
			if !hasReq {
				return
			}
			seen[al] = true
			f, _, _ := complitFieldsAlloc(al)
			var keys []string
			for k := range f {
				keys = append(keys, k)
			}
			sort.Strings(keys)
			for _, k := range keys {
				if k == "Req" || strings.HasPrefix(k, "Rsp") {
					continue // the whole request (request-passed-whole) / response storage
				}
				field := k[strings.LastIndex(k, ".")+1:]
				wantField := field
				isCloseID := nt.Obj().Name() == "CloseSessionCmd" && k == "Req.ID"
				if isCloseID {
					wantField = "RemoteID"
				}
				ok, why := true, ""
				origins := viewOrigins(root, f[k])
				if len(origins) == 0 {
					origins = []ssa.Value{f[k]}
				}
				for _, o := range origins {
					o = stripConv(o)
					switch x := o.(type) {
					case *ssa.Const:
						if isCloseID {
							ok, why = false, "a constant"
						}
					case *ssa.Parameter:
						if x.Parent() != root {
							ok, why = false, "a parameter of "+c.FnName(x.Parent())+" not resolved in this view"
						} else if isCloseID {
							ok, why = false, "the parameter "+x.Name()
						}
					case *ssa.UnOp:
						if x.Op != token.MUL {
							ok, why = false, "computed value "+exprText(x)
							break
						}
						aps := viewAPs(root, x.X)
						if len(aps) == 0 {
							ok, why = false, "a load that does not resolve to a field"
						}
						for _, a := range aps {
							sel := a.SelString()
							last := sel[strings.LastIndex(sel, ".")+1:]
							if last != wantField {
								ok, why = false, "the field "+sel
							}
						}
					default:
						ok, why = false, exprText(o)
					}
				}
				key := c.FnName(root) + "|" + nt.Obj().Name() + "." + k
				if isCloseID {
					r.Check(ok, key, al.Pos(), "← the session's RemoteID", "Close Session does not name the BMC's session ID (the session's RemoteID) but "+why+": the BMC is asked to close a session it does not know, and the real one stays open")
				} else {
					r.Check(ok, key, al.Pos(), "constant, parameter or same-named field", "the command's "+k+" is neither a constant, a parameter of the helper nor the same-named field of a value it was given, but "+why+": the request does not carry what the caller asked for")
				}
			}
		})
	}
}
