package main

import (
	"go/token"
	"go/types"

	"golang.org/x/tools/go/ssa"
)

// ctorModel locates the session constructor and the handshake steps in it by
// their types: the function that builds a bmc.V2Session composite literal,
// and inside it the calls returning *ipmi.OpenSessionRsp, *ipmi.RAKPMessage2,
// *ipmi.RAKPMessage4.
type ctorModel struct {
	Fn       *ssa.Function
	Lit      *ssa.Alloc // the V2Session literal
	OpenCall *ssa.Call
	R1Call   *ssa.Call
	R3Call   *ssa.Call
	OpenRsp  ssa.Value // *ipmi.OpenSessionRsp
	M1       ssa.Value // *ipmi.RAKPMessage1 passed to the RAKP1 exchange
	M2       ssa.Value // *ipmi.RAKPMessage2 returned
	M4       ssa.Value
	Opts     *ssa.Parameter
}

func resultPtrTo(call *ssa.Call, n *types.Named) bool {
	if n == nil {
		return false
	}
	sig := call.Call.Signature()
	if sig == nil || sig.Results().Len() < 1 {
		return false
	}
	p, ok := sig.Results().At(0).Type().(*types.Pointer)
	if !ok {
		return false
	}
	nn, ok := p.Elem().(*types.Named)
	return ok && nn.Obj() == n.Obj()
}

func extractOf(call *ssa.Call, idx int) ssa.Value {
	for _, ref := range *call.Referrers() {
		if ex, ok := ref.(*ssa.Extract); ok && ex.Index == idx {
			return ex
		}
	}
	return nil
}

func (c *Ctx) findCtor() *ctorModel {
	v2s := c.Named("", "V2Session")
	if v2s == nil {
		return nil
	}
	for _, fn := range c.LibFuncs() {
		var lit *ssa.Alloc
		rawInstrs(fn, false, func(in ssa.Instruction) {
			if al, ok := in.(*ssa.Alloc); ok {
				if n, ok := al.Type().(*types.Pointer).Elem().(*types.Named); ok && n.Obj() == v2s.Obj() {
					lit = al
				}
			}
		})
		if lit == nil {
			continue
		}
		m := &ctorModel{Fn: fn, Lit: lit}
		osr := c.Named("pkg/ipmi", "OpenSessionRsp")
		r2 := c.Named("pkg/ipmi", "RAKPMessage2")
		r4 := c.Named("pkg/ipmi", "RAKPMessage4")
		rawInstrs(fn, false, func(in ssa.Instruction) {
			call, ok := in.(*ssa.Call)
			if !ok {
				return
			}
			switch {
			case resultPtrTo(call, osr):
				m.OpenCall = call
				m.OpenRsp = extractOf(call, 0)
			case resultPtrTo(call, r2):
				m.R1Call = call
				m.M2 = extractOf(call, 0)
				args := callArgs(&call.Call)
				if len(args) > 0 {
					m.M1 = args[len(args)-1]
				}
			case resultPtrTo(call, r4):
				m.R3Call = call
				m.M4 = extractOf(call, 0)
			}
		})
		for _, p := range fn.Params {
			if pt, ok := p.Type().(*types.Pointer); ok {
				if n, ok := pt.Elem().(*types.Named); ok && n.Obj().Name() == "V2SessionOpts" {
					m.Opts = p
				}
			}
		}
		return m
	}
	return nil
}

// fieldLoadOf: v is a load of field `name` of the object pointed to by base.
func fieldLoadOf(v ssa.Value, base ssa.Value, name string) bool {
	ld, ok := v.(*ssa.UnOp)
	if !ok || ld.Op != token.MUL {
		return false
	}
	fa, ok := ld.X.(*ssa.FieldAddr)
	if !ok || fa.X != base {
		return false
	}
	f := structField(fa.X.Type(), fa.Field)
	return f != nil && f.Name() == name
}

// sessionSuccessPaths enumerates the constructor's paths that return the
// literal (a session) — its success exits.
func (m *ctorModel) successPaths(visit func(p CPath)) bool {
	return enumPaths(m.Fn, 2, 100000, func(p CPath) {
		ret, ok := p.Last().(*ssa.Return)
		if !ok || len(ret.Results) < 1 {
			return
		}
		if p.Resolve(ret.Results[0]) == ssa.Value(m.Lit) {
			visit(p)
		}
	})
}

// tookEqualArm: on path p, the If whose condition is cmp (an ==/!= BinOp,
// possibly negated) took the arm on which the operands are equal.
func tookEqualArm(p CPath, ifi *ssa.If) bool {
	op, _, _, neg, isBin := condOf(ifi.Cond)
	if !isBin {
		return false
	}
	arm, ok := p.Took(ifi)
	if !ok {
		return false
	}
	if neg {
		arm = !arm
	}
	return (op == token.EQL && arm) || (op == token.NEQ && !arm)
}

// ifsOf lists the If instructions of fn.
// ifsOf lists the conditional branches of fn's flattened view.
func ifsOf(fn *ssa.Function) []*ssa.If { return viewIfs(fn) }

// rawIfsOf lists the conditional branches of fn alone.
func rawIfsOf(fn *ssa.Function) []*ssa.If {
	var out []*ssa.If
	for _, b := range fn.Blocks {
		if ifi, ok := b.Instrs[len(b.Instrs)-1].(*ssa.If); ok {
			out = append(out, ifi)
		}
	}
	return out
}
