package main

import (
	"sort"
	"strconv"
)

// ------------------------------------------------------------------ linear forms over integer symbols

type Sym int

// Lin is Σ coef[s]·s + C.
type Lin struct {
	T map[Sym]int64
	C int64
}

func linConst(c int64) Lin { return Lin{C: c} }
func linSym(s Sym) Lin     { return Lin{T: map[Sym]int64{s: 1}} }

func (a Lin) isConst() (int64, bool) {
	if len(a.T) == 0 {
		return a.C, true
	}
	return 0, false
}

func (a Lin) add(b Lin, k int64) Lin { // a + k·b
	out := Lin{T: map[Sym]int64{}, C: a.C + k*b.C}
	for s, c := range a.T {
		out.T[s] = c
	}
	for s, c := range b.T {
		out.T[s] += k * c
		if out.T[s] == 0 {
			delete(out.T, s)
		}
	}
	return out
}

func (a Lin) scale(k int64) Lin {
	out := Lin{T: map[Sym]int64{}, C: a.C * k}
	if k == 0 {
		return out
	}
	for s, c := range a.T {
		out.T[s] = c * k
	}
	return out
}

func (a Lin) addConst(k int64) Lin {
	out := a.add(Lin{}, 0)
	out.C += k
	return out
}

func (a Lin) syms() []Sym {
	var out []Sym
	for s := range a.T {
		out = append(out, s)
	}
	sort.Slice(out, func(i, j int) bool { return out[i] < out[j] })
	return out
}

func (a Lin) key() string {
	// hot: called for every constraint in every entailment query
	n := len(a.T)
	var small [8]Sym
	ss := small[:0]
	if n > len(small) {
		ss = make([]Sym, 0, n)
	}
	for s := range a.T {
		ss = append(ss, s)
	}
	// insertion sort: forms are short
	for i := 1; i < len(ss); i++ {
		for j := i; j > 0 && ss[j] < ss[j-1]; j-- {
			ss[j], ss[j-1] = ss[j-1], ss[j]
		}
	}
	buf := make([]byte, 0, 16*n+8)
	for _, s := range ss {
		buf = strconv.AppendInt(buf, a.T[s], 10)
		buf = append(buf, '*')
		buf = strconv.AppendInt(buf, int64(s), 10)
		buf = append(buf, ',')
	}
	buf = strconv.AppendInt(buf, a.C, 10)
	return string(buf)
}

// Cons is the constraint E ≥ 0.
type Cons struct{ E Lin }

func geq(a, b Lin) Cons { return Cons{a.add(b, -1)} }              // a ≥ b
func leq(a, b Lin) Cons { return Cons{b.add(a, -1)} }              // a ≤ b
func gt(a, b Lin) Cons  { return Cons{a.add(b, -1).addConst(-1)} } // a > b  (integers)
func lt(a, b Lin) Cons  { return Cons{b.add(a, -1).addConst(-1)} } // a < b

func gcd(a, b int64) int64 {
	if a < 0 {
		a = -a
	}
	if b < 0 {
		b = -b
	}
	for b != 0 {
		a, b = b, a%b
	}
	return a
}

func floorDiv(a, b int64) int64 { // b > 0
	q := a / b
	if (a%b != 0) && ((a < 0) != (b < 0)) {
		q--
	}
	return q
}

// tighten divides by the gcd of the coefficients and floors the constant
// (valid for integer-valued symbols).
func (c Cons) tighten() Cons {
	var g int64
	for _, k := range c.E.T {
		g = gcd(g, k)
	}
	if g <= 1 {
		return c
	}
	out := Lin{T: map[Sym]int64{}, C: floorDiv(c.E.C, g)}
	for s, k := range c.E.T {
		out.T[s] = k / g
	}
	return Cons{out}
}

// infeasible decides (soundly: true only if really infeasible over the
// integers) whether the conjunction of constraints has no solution, by
// Fourier–Motzkin elimination with integer tightening.
func infeasible(cs []Cons) bool {
	return infeasibleFM(cs)
}

// cone returns the constraints transitively sharing a symbol with seed.
func cone(cs []Cons, seed Lin) []Cons {
	want := map[Sym]bool{}
	for s := range seed.T {
		want[s] = true
	}
	used := make([]bool, len(cs))
	var out []Cons
	for changed := true; changed; {
		changed = false
		for i, c := range cs {
			if used[i] {
				continue
			}
			hit := false
			for s := range c.E.T {
				if want[s] {
					hit = true
					break
				}
			}
			if hit {
				used[i] = true
				out = append(out, c)
				for s := range c.E.T {
					if !want[s] {
						want[s] = true
						changed = true
					}
				}
			}
		}
	}
	return out
}

// infeasibleWith: assuming cs alone is feasible, is cs ∧ extra infeasible?
// Only the constraints connected to extra's symbols can matter.
func infeasibleWith(cs []Cons, extra ...Cons) bool {
	var seed Lin
	seed.T = map[Sym]int64{}
	for _, x := range extra {
		if k, ok := x.E.isConst(); ok {
			if k < 0 {
				return true
			}
			continue
		}
		for s := range x.E.T {
			seed.T[s] = 1
		}
	}
	rel := cone(cs, seed)
	return infeasibleFM(append(rel, extra...))
}

// infeasibleFM: equalities are first used to substitute symbols away
// (Gaussian elimination on unit coefficients), which exposes integer
// tightening opportunities; then Fourier–Motzkin; if that cannot refute and a
// symbol has a small finite range, the range is split case by case.
func infeasibleFM(cs []Cons) bool {
	cs = gaussian(cs)
	if fmRefute(cs) {
		return true
	}
	return splitRefute(cs, 2)
}

// gaussian substitutes symbols defined by equalities with a unit coefficient.
func gaussian(cs []Cons) []Cons {
	for round := 0; round < 32; round++ {
		keys := make(map[string]int, len(cs))
		ts := make([]Cons, len(cs))
		for i, c := range cs {
			ts[i] = c.tighten()
			keys[ts[i].E.key()] = i
		}
		var eq *Lin
		var sym Sym
		found := false
		for i := range cs {
			ct := ts[i]
			// only forms with a unit coefficient can be solved for a symbol: skip the rest early
			unit := false
			for _, k := range ct.E.T {
				if k == 1 || k == -1 {
					unit = true
					break
				}
			}
			if !unit {
				continue
			}
			neg := Cons{ct.E.scale(-1)}.tighten()
			if _, ok := keys[neg.E.key()]; !ok {
				continue
			}
			for _, s := range ct.E.syms() {
				if k := ct.E.T[s]; k == 1 || k == -1 {
					e := ct.E
					eq, sym, found = &e, s, true
					break
				}
			}
			if found {
				break
			}
		}
		if !found {
			return cs
		}
		k := eq.T[sym]
		// sym = -(eq - k·sym)/k
		rest := eq.add(linSym(sym), -k).scale(-k)
		out := make([]Cons, 0, len(cs))
		for _, c := range cs {
			n := Cons{linSubst(c.E, sym, rest)}
			if kk, isK := n.E.isConst(); isK && kk >= 0 {
				continue
			}
			out = append(out, n)
		}
		cs = out
	}
	return cs
}

// splitRefute: pick a symbol with a small constant range and refute every value.
func splitRefute(cs []Cons, depth int) bool {
	if depth == 0 {
		return false
	}
	lo := map[Sym]int64{}
	hi := map[Sym]int64{}
	hasLo := map[Sym]bool{}
	hasHi := map[Sym]bool{}
	for _, c := range cs {
		if len(c.E.T) != 1 {
			continue
		}
		for s, k := range c.E.T {
			// k·s + C ≥ 0
			if k > 0 {
				b := -floorDiv(c.E.C, k) // s ≥ ceil(-C/k)
				if !hasLo[s] || b > lo[s] {
					lo[s], hasLo[s] = b, true
				}
			} else {
				b := floorDiv(c.E.C, -k) // s ≤ floor(C/-k)
				if !hasHi[s] || b < hi[s] {
					hi[s], hasHi[s] = b, true
				}
			}
		}
	}
	var best Sym
	bestW := int64(-1)
	var syms []Sym
	for s := range lo {
		syms = append(syms, s)
	}
	sort.Slice(syms, func(i, j int) bool { return syms[i] < syms[j] })
	for _, s := range syms {
		if !hasLo[s] || !hasHi[s] {
			continue
		}
		w := hi[s] - lo[s]
		if w < 0 {
			return true
		}
		// only split symbols that interact with others
		inter := false
		for _, c := range cs {
			if _, ok := c.E.T[s]; ok && len(c.E.T) > 1 {
				inter = true
			}
		}
		if inter && w <= 40 && (bestW < 0 || w < bestW) {
			best, bestW = s, w
		}
	}
	if bestW < 0 {
		return false
	}
	for v := lo[best]; v <= hi[best]; v++ {
		sub := make([]Cons, 0, len(cs))
		for _, c := range cs {
			sub = append(sub, Cons{linSubst(c.E, best, linConst(v))})
		}
		sub = gaussian(sub)
		if !fmRefute(sub) && !splitRefute(sub, depth-1) {
			return false
		}
	}
	return true
}

func fmRefute(cs []Cons) bool {
	work := make([]Cons, 0, len(cs))
	seen := map[string]bool{}
	add := func(list []Cons, c Cons) ([]Cons, bool) {
		c = c.tighten()
		if k, ok := c.E.isConst(); ok {
			if k < 0 {
				return list, true
			}
			return list, false
		}
		key := c.E.key()
		if seen[key] {
			return list, false
		}
		seen[key] = true
		return append(list, c), false
	}
	for _, c := range cs {
		var bad bool
		work, bad = add(work, c)
		if bad {
			return true
		}
	}
	for iter := 0; iter < 4096; iter++ {
		// pick the variable with the fewest pos×neg products
		count := map[Sym][2]int{}
		for _, c := range work {
			for s, k := range c.E.T {
				x := count[s]
				if k > 0 {
					x[0]++
				} else {
					x[1]++
				}
				count[s] = x
			}
		}
		if len(count) == 0 {
			return false
		}
		var best Sym
		bestCost := -1
		var ss []Sym
		for s := range count {
			ss = append(ss, s)
		}
		sort.Slice(ss, func(i, j int) bool { return ss[i] < ss[j] })
		for _, s := range ss {
			x := count[s]
			cost := x[0]*x[1] - x[0] - x[1]
			if bestCost == -1 || cost < bestCost {
				best, bestCost = s, cost
			}
		}
		var pos, neg, rest []Cons
		for _, c := range work {
			k := c.E.T[best]
			switch {
			case k > 0:
				pos = append(pos, c)
			case k < 0:
				neg = append(neg, c)
			default:
				rest = append(rest, c)
			}
		}
		seen = map[string]bool{}
		next := make([]Cons, 0, len(rest)+len(pos)*len(neg))
		for _, c := range rest {
			seen[c.E.key()] = true
			next = append(next, c)
		}
		if len(pos)*len(neg) > 4000 {
			return false // give up: cannot show infeasibility
		}
		for _, p := range pos {
			for _, n := range neg {
				a, b := p.E.T[best], -n.E.T[best]
				g := gcd(a, b)
				// (b/g)·p + (a/g)·n eliminates best
				comb := p.E.scale(b/g).add(n.E, a/g)
				delete(comb.T, best)
				var bad bool
				next, bad = add(next, Cons{comb})
				if bad {
					return true
				}
			}
		}
		work = next
	}
	return false
}

// entails: cs ⊨ c  (refute cs ∧ ¬c).
func entails(cs []Cons, c Cons) bool {
	neg := Cons{c.E.scale(-1).addConst(-1)} // E ≤ -1
	if k, ok := c.E.isConst(); ok {
		return k >= 0
	}
	return infeasibleWith(cs, neg)
}
