package main

import (
	"fmt"
	"go/token"
	"go/types"
	"sort"
	"strings"

	"golang.org/x/tools/go/ssa"
)

// ctorModel locates the session constructor and the handshake steps in it by
// their types: the function that builds a bmc.V2Session composite literal,
// and inside it the calls returning *ipmi.OpenSessionRsp, *ipmi.RAKPMessage2,
// *ipmi.RAKPMessage4.
type ctorModel struct {
	Fn       *ssa.Function
	Lit      *ssa.Alloc // the V2Session literal
	OpenCall *ssa.Call
	R1Call   *ssa.Call
	R3Call   *ssa.Call
	OpenRsp  ssa.Value // *ipmi.OpenSessionRsp
	M1       ssa.Value // *ipmi.RAKPMessage1 passed to the RAKP1 exchange
	M2       ssa.Value // *ipmi.RAKPMessage2 returned
	M4       ssa.Value
	Opts     *ssa.Parameter
}

func resultPtrTo(call *ssa.Call, n *types.Named) bool {
	if n == nil {
		return false
	}
	sig := call.Call.Signature()
	if sig == nil || sig.Results().Len() < 1 {
		return false
	}
	p, ok := sig.Results().At(0).Type().(*types.Pointer)
	if !ok {
		return false
	}
	nn, ok := p.Elem().(*types.Named)
	return ok && nn.Obj() == n.Obj()
}

func extractOf(call *ssa.Call, idx int) ssa.Value {
	for _, ref := range *call.Referrers() {
		if ex, ok := ref.(*ssa.Extract); ok && ex.Index == idx {
			return ex
		}
	}
	return nil
}

func (c *Ctx) findCtor() *ctorModel {
	v2s := c.Named("", "V2Session")
	if v2s == nil {
		return nil
	}
	osr := c.Named("pkg/ipmi", "OpenSessionRsp")
	r2 := c.Named("pkg/ipmi", "RAKPMessage2")
	r4 := c.Named("pkg/ipmi", "RAKPMessage4")
	// the constructor: the function whose flattened view allocates the session and makes the
	// three handshake exchanges (in its own body or in stage helpers spliced into it); when the
	// stages nest, the outermost such function that is not itself only a spliced helper
	var best *ctorModel
	var cands []*ctorModel
	for _, fn := range c.LibFuncs() {
		if fn.Parent() != nil {
			continue
		}
		m := &ctorModel{Fn: fn}
		viewInstrs(fn, func(in ssa.Instruction) {
			switch x := in.(type) {
			case *ssa.Alloc:
				if n, ok := x.Type().(*types.Pointer).Elem().(*types.Named); ok && n.Obj() == v2s.Obj() {
					m.Lit = x
				}
			case *ssa.Call:
				// the innermost call of each kind: the one whose last argument is the request it sends
				switch {
				case resultPtrTo(x, osr):
					if m.OpenCall == nil || !flatOf(fn).Spliced(x) || lastArgIsRequest(x) {
						m.OpenCall = x
						m.OpenRsp = extractOf(x, 0)
					}
				case resultPtrTo(x, r2):
					args := callArgs(&x.Call)
					if len(args) > 0 && isPtrTo(args[len(args)-1].Type(), c.Named("pkg/ipmi", "RAKPMessage1")) {
						m.R1Call = x
						m.M2 = extractOf(x, 0)
						m.M1 = args[len(args)-1]
					}
				case resultPtrTo(x, r4):
					m.R3Call = x
					m.M4 = extractOf(x, 0)
				}
			}
		})
		if m.Lit == nil || m.R1Call == nil || m.R3Call == nil {
			continue
		}
		for _, f := range flatOf(fn).Funcs() {
			for _, p := range f.Params {
				if pt, ok := p.Type().(*types.Pointer); ok {
					if n, ok := pt.Elem().(*types.Named); ok && n.Obj().Name() == "V2SessionOpts" && (m.Opts == nil || f == fn) {
						m.Opts = p
					}
				}
			}
		}
		cands = append(cands, m)
	}
	// the innermost function that has everything (the exported wrapper around the constructor
	// has it too, through the constructor): the one whose view contains no other candidate
	for _, m := range cands {
		inner := true
		for _, f := range flatOf(m.Fn).Funcs() {
			for _, o := range cands {
				if o != m && f == o.Fn {
					inner = false
				}
			}
		}
		if inner {
			best = m
		}
	}
	return best
}

// lastArgIsRequest: the call's last argument is a freshly built request object.
func lastArgIsRequest(call *ssa.Call) bool {
	args := callArgs(&call.Call)
	if len(args) == 0 {
		return false
	}
	_, ok := args[len(args)-1].(*ssa.Alloc)
	return ok
}

// fieldLoadOf: v is a load of field `name` of the object pointed to by base.
func fieldLoadOf(v ssa.Value, base ssa.Value, name string) bool {
	v = canonValue(v)
	ld, ok := v.(*ssa.UnOp)
	if !ok || ld.Op != token.MUL {
		return false
	}
	fa, ok := ld.X.(*ssa.FieldAddr)
	if !ok || (fa.X != base && canonValue(fa.X) != canonValue(base)) {
		return false
	}
	f := structField(fa.X.Type(), fa.Field)
	return f != nil && f.Name() == name
}

// selLoadOf: v is a load of the field path sel ("AuthenticationPayload.Algorithm") of the
// object base points to — base possibly read back from a single-writer state field.
func selLoadOf(v ssa.Value, base ssa.Value, sel string) bool {
	v = canonValue(v)
	ld, ok := v.(*ssa.UnOp)
	if !ok || ld.Op != token.MUL || base == nil {
		return false
	}
	var names []string
	addr := ld.X
	for i := 0; i < 6; i++ {
		fa, ok := addr.(*ssa.FieldAddr)
		if !ok {
			break
		}
		f := structField(fa.X.Type(), fa.Field)
		if f == nil {
			return false
		}
		names = append([]string{f.Name()}, names...)
		addr = fa.X
	}
	return len(names) > 0 && strings.Join(names, ".") == sel && (addr == base || canonValue(addr) == canonValue(base))
}

// sessionSuccessPaths enumerates the constructor's paths that return the
// literal (a session) — its success exits.
func (m *ctorModel) successPaths(visit func(p CPath)) bool {
	return enumPaths(m.Fn, 2, 100000, func(p CPath) {
		ret, ok := p.Last().(*ssa.Return)
		if !ok || len(ret.Results) < 1 {
			return
		}
		if p.Resolve(ret.Results[0]) == ssa.Value(m.Lit) {
			visit(p)
		}
	})
}

// tookEqualArm: on path p, the If whose condition is cmp (an ==/!= BinOp,
// possibly negated) took the arm on which the operands are equal.
func tookEqualArm(p CPath, ifi *ssa.If) bool {
	op, _, _, neg, isBin := condOf(ifi.Cond)
	if !isBin {
		return false
	}
	arm, ok := p.Took(ifi)
	if !ok {
		return false
	}
	if neg {
		arm = !arm
	}
	return (op == token.EQL && arm) || (op == token.NEQ && !arm)
}

// ifsOf lists the If instructions of fn.
// ifsOf lists the conditional branches of fn's flattened view.
func ifsOf(fn *ssa.Function) []*ssa.If { return viewIfs(fn) }

// rawIfsOf lists the conditional branches of fn alone.
func rawIfsOf(fn *ssa.Function) []*ssa.If {
	var out []*ssa.If
	for _, b := range fn.Blocks {
		if ifi, ok := b.Instrs[len(b.Instrs)-1].(*ssa.If); ok {
			out = append(out, ifi)
		}
	}
	return out
}

// checkStateReads: the rules read a single-writer field of a state struct as the value its
// one store put there (canonValue). Within the constructor's view that is right only where
// the store has happened before the read on every path — a stage that reads `h.sik` before
// the stage that computes it reads nil. Every such read in the view whose writer is also in
// the view must be preceded by the write.
func (c *Ctx) checkStateReads(r *Report, m *ctorModel, name string, only func(f *types.Var) bool) {
	fl := flatOf(m.Fn)
	n := 0
	var bad []string
	var badPos token.Pos
	viewInstrs(m.Fn, func(in ssa.Instruction) {
		ld, ok := in.(*ssa.UnOp)
		if !ok || ld.Op != token.MUL {
			return
		}
		fa, ok := ld.X.(*ssa.FieldAddr)
		if !ok {
			return
		}
		f := structField(fa.X.Type(), fa.Field)
		if !stateStructField(f) || !isStateStructType(fa.X.Type()) || len(fieldStores[f]) != 1 {
			return
		}
		if only != nil && !only(f) {
			return // not a value this property's rules read through
		}
		st := fieldStores[f][0]
		if len(fl.segsOf(st)) == 0 {
			return // written by another operation: not a value of this one
		}
		n++
		if !fl.MustPrecede(st, ld) {
			bad = append(bad, f.Name()+" at "+c.Pos(ld.Pos()))
			if !badPos.IsValid() {
				badPos = ld.Pos()
			}
		}
	})
	if !badPos.IsValid() {
		badPos = m.Fn.Pos()
	}
	sort.Strings(bad)
	r.Check(len(bad) == 0, name+"|state fields written before read", badPos, fmt.Sprintf("%d reads of handshake state follow the one write of their field", n), "handshake state is read before the stage that stores it has run: "+strings.Join(bad, ", "))
}
