package main

import (
	"fmt"
	"go/token"
	"go/types"
	"strings"

	"golang.org/x/tools/go/ssa"
)

// doCall interprets a call instruction and continues with each resulting
// state via k.
func (e *lfEngine) doCall(fr *lfFrame, st *lfState, x *ssa.Call, k func(st *lfState, res lfVal, fr *lfFrame)) {
	cc := &x.Call
	// ---- builtins
	if b, ok := cc.Value.(*ssa.Builtin); ok {
		k(st, e.builtin(fr, st, x, b.Name()), fr)
		return
	}
	name := calleeName(cc)
	// ---- contracts for code outside the module
	if res, ok := e.contract(fr, st, x, name); ok {
		k(st, res, fr)
		return
	}
	// ---- module callees
	var targets []*ssa.Function
	var recvVal lfVal
	if f := cc.StaticCallee(); f != nil {
		if e.c.InModule(f) && f.Blocks != nil && !e.c.reachesSend(f) {
			if e.tracksSig(f.Signature) {
				targets = []*ssa.Function{f}
			} else if !e.scheduled[f] && !e.analysed[f] {
				// context cannot matter (no integer/slice parameters or results): analyse on its own
				e.scheduled[f] = true
				e.pending = append(e.pending, f)
			}
		}
	} else if cc.IsInvoke() {
		recvVal = e.val(fr, st, cc.Value)
		targets = e.invokeTargets(cc, recvVal)
	} else {
		// call of a function value
		fv := e.val(fr, st, cc.Value)
		if vf, ok := fv.(vFunc); ok && vf.Fn != nil && vf.Fn.Blocks != nil && e.c.InModule(vf.Fn) {
			e.inline(fr, st, x, vf.Fn, vf.Bind, nil, k)
			return
		}
		if e.tracksResult(cc.Signature()) {
			if sg, ok := cc.Value.Type().Underlying().(*types.Signature); ok {
				targets = e.addrTaken[sigKey(sg)]
			}
		}
	}
	onStack := func(f *ssa.Function) bool {
		for p := fr; p != nil; p = p.parent {
			if p.fn == f {
				return true
			}
		}
		return false
	}
	var usable []*ssa.Function
	for _, t := range targets {
		if e.c.reachesSend(t) {
			targets = nil
			usable = nil
			break
		}
		if !onStack(t) && fr.depth < e.maxDepth {
			usable = append(usable, t)
		}
	}
	if len(usable) == 0 {
		if len(targets) > 0 && e.tracksResult(cc.Signature()) && e.quiet == 0 {
			e.unknownObl(fr, x, "call depth: "+shortName(name), "inlining bound reached or recursion; result unknown")
		}
		// unknown call: forget the heap unless the callee is known not to write it
		st2 := st
		if !e.callIsPure(cc) {
			st2 = st.clone()
			st2.heap = map[string]lfVal{}
		}
		res := e.fresh(st2, x.Type(), shortName(name)+"()")
		// error results of fmt.Errorf-like constructors are non-nil
		k(st2, res, fr)
		return
	}
	for i, t := range usable {
		f2, s2 := fr, st
		if len(usable) > 1 {
			f2, s2 = fr.cloneEnv(), st.clone()
			s2.trail = append(s2.trail, "callee="+t.Name())
		}
		_ = i
		e.inline(f2, s2, x, t, nil, recvVal, k)
	}
}

func stripNamedSig(t types.Type) types.Type {
	return t.Underlying()
}

// tracksSig: the signature has integer/slice/string parameters or results, so
// the calling context can matter for bounds.
func (e *lfEngine) tracksSig(sig *types.Signature) bool {
	if e.tracksResult(sig) {
		return true
	}
	for i := 0; i < sig.Params().Len(); i++ {
		t := sig.Params().At(i).Type()
		if isIntType(t) || sliceLike(t) {
			return true
		}
	}
	return false
}

// tracksResult: does the signature return something the analysis tracks
// (integers, slices, strings)?
func (e *lfEngine) tracksResult(sig *types.Signature) bool {
	if sig == nil {
		return false
	}
	for i := 0; i < sig.Results().Len(); i++ {
		t := sig.Results().At(i).Type()
		if isIntType(t) || sliceLike(t) {
			return true
		}
	}
	return false
}

// invokeTargets: module methods that can be the target of an interface call,
// only for interfaces declared in the module and results the analysis tracks.
func (e *lfEngine) invokeTargets(cc *ssa.CallCommon, recv lfVal) []*ssa.Function {
	// known dynamic value?
	if nv, ok := recv.(vNilable); ok && nv.Inner != nil {
		_ = nv
	}
	it, ok := cc.Value.Type().(*types.Named)
	if !ok || it.Obj().Pkg() == nil || !strings.HasPrefix(it.Obj().Pkg().Path(), modPath) {
		return nil
	}
	if !e.tracksResult(cc.Signature()) {
		return nil
	}
	iface, ok := it.Underlying().(*types.Interface)
	if !ok {
		return nil
	}
	var out []*ssa.Function
	seen := map[*ssa.Function]bool{}
	for _, p := range e.c.ModulePackages() {
		scope := p.Types.Scope()
		for _, n := range scope.Names() {
			tn, ok := scope.Lookup(n).(*types.TypeName)
			if !ok {
				continue
			}
			named, ok := tn.Type().(*types.Named)
			if !ok {
				continue
			}
			if _, isI := named.Underlying().(*types.Interface); isI {
				continue
			}
			for _, t := range []types.Type{named, types.NewPointer(named)} {
				if !types.Implements(t, iface) {
					continue
				}
				sel := e.c.Prog.MethodSets.MethodSet(t).Lookup(cc.Method.Pkg(), cc.Method.Name())
				if sel == nil {
					continue
				}
				f := e.c.Prog.MethodValue(sel)
				if f == nil {
					continue
				}
				if f.Synthetic != "" {
					if d := e.c.Prog.FuncValue(sel.Obj().(*types.Func)); d != nil && d.Blocks != nil {
						f = d
					}
				}
				if f.Blocks != nil && !seen[f] {
					seen[f] = true
					out = append(out, f)
				}
				break
			}
		}
	}
	return out
}

// inline interprets callee in the context of the call.
func (e *lfEngine) inline(fr *lfFrame, st *lfState, x *ssa.Call, callee *ssa.Function, bind []lfVal, recv lfVal, k func(st *lfState, res lfVal, fr *lfFrame)) {
	cc := &x.Call
	nf := &lfFrame{fn: callee, env: map[ssa.Value]lfVal{}, parent: fr, depth: fr.depth + 1, loops: naturalLoops(callee)}
	var args []lfVal
	if cc.IsInvoke() {
		// receiver: the dynamic value inside the interface if known, else unknown of the receiver type
		var rv lfVal
		if nv, ok := recv.(vNilable); ok && nv.Inner != nil {
			rv = nv.Inner
		}
		args = append(args, rv)
	}
	for _, a := range cc.Args {
		args = append(args, e.val(fr, st, a))
	}
	for i, p := range callee.Params {
		if i < len(args) && args[i] != nil && compatible(args[i], p.Type()) {
			nf.env[p] = args[i]
		} else {
			nf.env[p] = e.fresh(st, p.Type(), p.Name())
		}
	}
	for i, fv := range callee.FreeVars {
		if i < len(bind) {
			nf.env[fv] = bind[i]
		} else {
			nf.env[fv] = e.fresh(st, fv.Type(), fv.Name())
		}
	}
	if !e.analysed[callee] {
		e.analysed[callee] = true
		e.checkLoops(callee)
	}
	e.execFrom(nf, st, callee.Blocks[0], nil, 0, func(s2 *lfState, rets []lfVal) {
		var res lfVal
		switch len(rets) {
		case 0:
			res = vOpaque{}
		case 1:
			res = rets[0]
		default:
			res = vTuple(rets)
		}
		// the caller's environment must not be shared between return states
		k(s2, res, fr.cloneEnv())
	})
}

// compatible: the abstract value can stand for a parameter of type t.
func compatible(v lfVal, t types.Type) bool {
	switch v.(type) {
	case vInt:
		return isIntType(t)
	case vSlice:
		return sliceLike(t)
	case vFloat:
		return isFloatType(t)
	case vBoolConst, vCmp, vOpaqueBool, vNot:
		return isBoolType(t)
	case vPtr:
		_, ok := t.Underlying().(*types.Pointer)
		return ok
	case vFunc:
		_, ok := t.Underlying().(*types.Signature)
		return ok
	case vNilable:
		switch t.Underlying().(type) {
		case *types.Interface, *types.Signature, *types.Map, *types.Chan:
			return true
		}
		return false
	}
	return false
}

func (e *lfEngine) builtin(fr *lfFrame, st *lfState, x *ssa.Call, name string) lfVal {
	args := x.Call.Args
	switch name {
	case "len":
		if ln, ok := e.asSlice(st, e.val(fr, st, args[0]), args[0].Type(), valueName(args[0])); ok {
			return vInt{ln}
		}
		s := linSym(e.newSym("len(" + exprText(args[0]) + ")"))
		st.cons = append(st.cons, geq(s, linConst(0)))
		return vInt{s}
	case "cap":
		s := linSym(e.newSym("cap(" + exprText(args[0]) + ")"))
		if ln, ok := e.asSlice(st, e.val(fr, st, args[0]), args[0].Type(), valueName(args[0])); ok {
			st.cons = append(st.cons, geq(s, ln))
		} else {
			st.cons = append(st.cons, geq(s, linConst(0)))
		}
		return vInt{s}
	case "append":
		a, ok1 := e.asSlice(st, e.val(fr, st, args[0]), args[0].Type(), valueName(args[0]))
		if len(args) == 1 {
			return vSlice{a}
		}
		b, ok2 := e.asSlice(st, e.val(fr, st, args[1]), args[1].Type(), valueName(args[1]))
		if ok1 && ok2 {
			return vSlice{a.add(b, 1)}
		}
		return e.fresh(st, x.Type(), x.Name())
	case "copy":
		n := linSym(e.newSym("copy()"))
		st.cons = append(st.cons, geq(n, linConst(0)))
		// record whether a copy into a whole fixed-size array is total (used by C17)
		if sl, ok := args[0].(*ssa.Slice); ok && sl.Low == nil && sl.High == nil && e.quiet == 0 {
			if pt, ok := sl.X.Type().Underlying().(*types.Pointer); ok {
				if at, ok := pt.Elem().Underlying().(*types.Array); ok {
					if src, ok := e.asSlice(st, e.val(fr, st, args[1]), args[1].Type(), valueName(args[1])); ok {
						c := e.copyTotal[x]
						if c == nil {
							c = &lfCopy{}
							e.copyTotal[x] = c
						}
						if entails(st.cons, geq(src, linConst(at.Len()))) {
							c.Total++
						} else {
							c.Partial++
						}
					}
				}
			}
		}
		if a, ok := e.asSlice(st, e.val(fr, st, args[0]), args[0].Type(), valueName(args[0])); ok {
			st.cons = append(st.cons, leq(n, a))
		}
		if b, ok := e.asSlice(st, e.val(fr, st, args[1]), args[1].Type(), valueName(args[1])); ok {
			st.cons = append(st.cons, leq(n, b))
		}
		return vInt{n}
	case "min", "max":
		r := e.fresh(st, x.Type(), x.Name())
		if ri, ok := r.(vInt); ok {
			for _, a := range args {
				if ai, ok := e.val(fr, st, a).(vInt); ok {
					if name == "min" {
						st.cons = append(st.cons, leq(ri.E, ai.E))
					} else {
						st.cons = append(st.cons, geq(ri.E, ai.E))
					}
				}
			}
		}
		return r
	}
	return e.fresh(st, x.Type(), x.Name())
}

// contract models calls into code outside the module.
func (e *lfEngine) contract(fr *lfFrame, st *lfState, x *ssa.Call, name string) (lfVal, bool) {
	cc := &x.Call
	args := callArgs(cc)
	sliceArg := func(i int) (Lin, bool) {
		if i >= len(args) {
			return Lin{}, false
		}
		return e.asSlice(st, e.val(fr, st, args[i]), args[i].Type(), valueName(args[i]))
	}
	needLen := func(i int, n int64, what string) {
		if ln, ok := sliceArg(i); ok {
			e.require(fr, st, x, what+": "+exprText(args[i])+" has ≥ "+fmt.Sprint(n)+" bytes", geq(ln, linConst(n)))
		} else {
			e.unknownObl(fr, x, what, "argument is not a tracked slice")
		}
	}
	switch name {
	case "(encoding/binary.littleEndian).Uint16", "(encoding/binary.bigEndian).Uint16":
		needLen(0, 2, "binary.Uint16")
		return e.fresh(st, x.Type(), "u16"), true
	case "(encoding/binary.littleEndian).Uint32", "(encoding/binary.bigEndian).Uint32":
		needLen(0, 4, "binary.Uint32")
		return e.fresh(st, x.Type(), "u32"), true
	case "(encoding/binary.littleEndian).Uint64", "(encoding/binary.bigEndian).Uint64":
		needLen(0, 8, "binary.Uint64")
		return e.fresh(st, x.Type(), "u64"), true
	case "(encoding/binary.littleEndian).PutUint16", "(encoding/binary.bigEndian).PutUint16":
		needLen(0, 2, "binary.PutUint16")
		return vOpaque{}, true
	case "(encoding/binary.littleEndian).PutUint32", "(encoding/binary.bigEndian).PutUint32":
		needLen(0, 4, "binary.PutUint32")
		return vOpaque{}, true
	case "(encoding/binary.littleEndian).PutUint64", "(encoding/binary.bigEndian).PutUint64":
		needLen(0, 8, "binary.PutUint64")
		return vOpaque{}, true
	case "(crypto/cipher.Block).BlockSize":
		// field fact (checked separately by the who-writes rule): every store to an
		// AES128CBC.cipher field is the result of crypto/aes.NewCipher, whose blocks are 16 bytes
		if strings.HasSuffix(apOf(cc.Value).SelString(), "cipher") {
			return vInt{linConst(16)}, true
		}
		s := linSym(e.newSym("BlockSize()"))
		st.cons = append(st.cons, geq(s, linConst(1)))
		return vInt{s}, true
	case "crypto/cipher.NewCBCDecrypter", "crypto/cipher.NewCBCEncrypter":
		if ln, ok := sliceArg(1); ok {
			e.require(fr, st, x, "cipher.NewCBC*: len(iv) == block size 16", geq(ln, linConst(16)), leq(ln, linConst(16)))
		} else {
			e.unknownObl(fr, x, "cipher.NewCBC*: len(iv) == block size", "iv is not a tracked slice")
		}
		return vNilable{ID: e.id(), Nil: 2}, true
	case "(crypto/cipher.BlockMode).CryptBlocks":
		dst, ok1 := sliceArg(0)
		src, ok2 := sliceArg(1)
		if ok1 && ok2 {
			e.require(fr, st, x, "CryptBlocks: len(dst) ≥ len(src)", geq(dst, src))
			if e.quiet == 0 {
				o := e.obligation(fr, x, "CryptBlocks: len(src) is a multiple of the block size 16")
				if e.divisible(st, src, 16) {
					o.Proved++
				} else {
					o.Failed++
					if o.Why == "" {
						o.Why = "cannot show " + e.linString(src) + " ≡ 0 (mod 16)"
					}
				}
			}
		} else {
			e.unknownObl(fr, x, "CryptBlocks preconditions", "arguments are not tracked slices")
		}
		return vOpaque{}, true
	case "(hash.Hash).Sum":
		s := linSym(e.newSym("digestSize"))
		st.cons = append(st.cons, geq(s, linConst(0)))
		if ln, ok := sliceArg(0); ok {
			return vSlice{ln.add(s, 1)}, true
		}
		return vSlice{s}, true
	case "(hash.Hash).Write", "(io.Writer).Write":
		return vTuple{e.fresh(st, types.Typ[types.Int], "n"), vNilable{ID: e.id()}}, true
	case "(hash.Hash).Reset", "(github.com/google/gopacket.DecodeFeedback).SetTruncated":
		return vOpaque{}, true
	case "crypto/hmac.Equal":
		return vOpaqueBool{e.id()}, true
	case "fmt.Errorf", "errors.New":
		return vNilable{ID: e.id(), Nil: 2}, true
	case "math.Ceil", "math.Floor":
		if f, ok := e.val(fr, st, args[0]).(vFloat); ok && f.Op == "" {
			op := "ceil"
			if name == "math.Floor" {
				op = "floor"
			}
			return vFloat{E: f.E, Den: f.Den, Op: op}, true
		}
		return vOpaque{}, true
	case "(*net.UDPConn).ReadFromUDP", "(*net.conn).Read", "(*net.conn).Write", "(*net.UDPConn).Write":
		n := linSym(e.newSym(shortName(name) + "#n"))
		st.cons = append(st.cons, geq(n, linConst(0)))
		if ln, ok := sliceArg(0); ok {
			st.cons = append(st.cons, leq(n, ln))
		}
		out := vTuple{vInt{n}}
		sig := cc.Signature()
		for i := 1; i < sig.Results().Len(); i++ {
			out = append(out, e.fresh(st, sig.Results().At(i).Type(), "r"))
		}
		return out, true
	case "crypto/rand.Read":
		return vTuple{e.fresh(st, types.Typ[types.Int], "n"), vNilable{ID: e.id()}}, true
	case "crypto/aes.NewCipher":
		return vTuple{vNilable{ID: e.id()}, vNilable{ID: e.id()}}, true
	case "(*bytes.Buffer).Bytes":
		return e.fresh(st, x.Type(), "buffer.Bytes()"), true
	case "(*bytes.Buffer).Write":
		return vTuple{e.fresh(st, types.Typ[types.Int], "n"), vNilable{ID: 0, Nil: 1}}, true
	}
	return nil, false
}

// divisible decides e ≡ 0 (mod m) using the equalities in the store: symbols
// pinned to a constant are substituted, quotient/remainder definitions
// a = m'·q + r are used to rewrite a, then all coefficients must be multiples of m.
func (e *lfEngine) divisible(st *lfState, x Lin, m int64) bool {
	// collect equalities: pairs c and -c both present
	eqs := []Lin{}
	keys := map[string]Lin{}
	for _, c := range st.cons {
		keys[c.E.key()] = c.E
	}
	for _, c := range st.cons {
		neg := c.E.scale(-1)
		if _, ok := keys[neg.key()]; ok {
			eqs = append(eqs, c.E)
		}
	}
	cur := x
	for iter := 0; iter < 8; iter++ {
		ok := true
		for _, k := range cur.T {
			if k%m != 0 {
				ok = false
			}
		}
		if ok && cur.C%m == 0 {
			return true
		}
		changed := false
		for s, k := range cur.T {
			if k%m == 0 {
				continue
			}
			// pinned to a constant?
			lo, hi := linSym(s), linSym(s)
			_ = lo
			_ = hi
			pinned := false
			for c := int64(-64); c <= 64 && !pinned; c++ {
				if entails(st.cons, geq(linSym(s), linConst(c))) && entails(st.cons, leq(linSym(s), linConst(c))) {
					cur = cur.add(linSym(s), -k).addConst(k * c)
					pinned = true
					changed = true
				}
				if c == 0 && !pinned {
					// quick exit for the common case only: try 0 first then give the range a chance
				}
			}
			if pinned {
				break
			}
			// an equality s = (other terms) with coefficient ±1 on s
			for _, eq := range eqs {
				if ck := eq.T[s]; ck == 1 || ck == -1 {
					// s = -(eq - ck·s)/ck
					rest := eq.add(linSym(s), -ck).scale(-ck)
					cur = cur.add(linSym(s), -k).add(rest, k)
					changed = true
					break
				}
			}
			if changed {
				break
			}
		}
		if !changed {
			return false
		}
	}
	return false
}

// ---------------------------------------------------------------- termination templates

// checkLoops classifies every natural loop of fn.
func (e *lfEngine) checkLoops(fn *ssa.Function) {
	for i, l := range naturalLoops(fn) {
		key := fmt.Sprintf("%s|loop#%d", e.c.FnName(fn), i)
		if _, ok := e.loopsSeen[key]; ok {
			continue
		}
		e.loopPos[key] = firstPos(l.Header)
		verdict := ""
		switch {
		case countingLoop(l.blockList()):
			verdict = "ok: counting loop (induction variable with positive constant step tested against a loop-invariant bound)"
		case shrinkingSliceLoop(l):
			verdict = "ok: the loop re-slices its input by a positive offset on every iteration while it is non-empty"
		case loopHasCtxCall(fn, l):
			verdict = "ok: every iteration makes a context-bounded exchange (bounded by the context, see C13/C16)"
		default:
			verdict = "unknown: no ranking argument found"
		}
		e.loopsSeen[key] = verdict
	}
}

// shrinkingSliceLoop: header φ s with back-edge value s[k:], k ≥ 1, and an exit test on len(s).
func shrinkingSliceLoop(l *Loop) bool {
	for _, in := range l.Header.Instrs {
		ph, ok := in.(*ssa.Phi)
		if !ok {
			continue
		}
		shrinks := false
		for i, ed := range ph.Edges {
			if !l.Blocks[l.Header.Preds[i]] {
				continue
			}
			sl, ok := ed.(*ssa.Slice)
			if !ok || sl.X != ssa.Value(ph) || sl.Low == nil || sl.High != nil {
				return false
			}
			if lb, ok := lowerBound(sl.Low); !ok || lb < 1 {
				return false
			}
			shrinks = true
		}
		if !shrinks {
			continue
		}
		// exit test len(s) > 0 / != 0
		if ifi, ok := l.Header.Instrs[len(l.Header.Instrs)-1].(*ssa.If); ok {
			_, x, _, _, isBin := condOf(ifi.Cond)
			if isBin {
				if arg, isLen := lenOf(x); isLen && arg == ssa.Value(ph) {
					return true
				}
			}
		}
	}
	return false
}

func loopHasCtxCall(fn *ssa.Function, l *Loop) bool {
	for b := range l.Blocks {
		for _, in := range b.Instrs {
			if cc := asCall(in); cc != nil {
				for _, a := range cc.Args {
					if isContextType(a.Type()) && ctxProvenance(fn, a) == "param" && !strings.HasPrefix(calleeName(cc), "context.") {
						return true
					}
				}
			}
		}
	}
	return false
}

var _ = token.ADD
