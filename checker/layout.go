package main

import (
	"fmt"
	"go/token"
	"os"
	"sort"
	"strings"

	"golang.org/x/tools/go/ssa"
)

// extractLayout runs engine E2 on fn (a decoder or serialiser method) and
// returns, per success path, what is stored where.
type layoutResult struct {
	Paths []layoutPath
	Err   string
}

type layoutEvents struct {
	Cond     []string
	Events   []lfEvent
	Bools    map[string]bool // decisions on receiver boolean fields
	OK       bool            // the path returns a nil error / no error result
	Cons     []Cons
	Fields   map[string]Lin    // current integer value of receiver fields at return (by promoted path)
	Elem     map[Sym]lfElemRef // symbols standing for bytes loaded from a tracked buffer
	SymName  func(Sym) string
	ParamSym map[int]Sym // integer parameters of the entry function → their symbols
	DLen     *Lin        // length of the input byte slice
	Ret0Nil  bool        // the first result is a nil pointer/interface constant (nothing is returned)
}

// feasibleWith: can the receiver fields take the given values on this path?
func (le layoutEvents) feasibleWith(assign map[string]int64, bools map[string]bool) bool {
	for n, v := range bools {
		if got, ok := le.Bools[n]; ok && got != v {
			return false
		}
	}
	var extra []Cons
	for n, v := range assign {
		if l, ok := le.Fields[n]; ok {
			extra = append(extra, geq(l, linConst(v)), leq(l, linConst(v)))
		}
	}
	if len(extra) == 0 {
		return true
	}
	return !infeasibleWith(le.Cons, extra...)
}

func extractEvents(c *Ctx, fn *ssa.Function, widths map[string]int) ([]layoutEvents, string) {
	return extractEventsWith(c, fn, widths, nil)
}

// extractEventsWith is extractEvents under an assumption on the entry state
// (setup may constrain the parameters' symbols).
func extractEventsWith(c *Ctx, fn *ssa.Function, widths map[string]int, setup func(e *lfEngine, fr *lfFrame, st *lfState)) ([]layoutEvents, string) {
	return extractEventsNamed(c, fn, widths, setup, nil)
}

// extractEventsNamed additionally names objects by their struct type (see lfEngine.typeNames).
func extractEventsNamed(c *Ctx, fn *ssa.Function, widths map[string]int, setup func(e *lfEngine, fr *lfFrame, st *lfState), typeNames map[string]string) ([]layoutEvents, string) {
	e := newLenflow(c, 6)
	e.bits = true
	e.typeNames = typeNames
	e.elemLoads = map[Sym]lfElemRef{}
	e.fieldWidth = widths
	if fn.Signature.Recv() == nil {
		// a plain function: its pointer-to-struct parameters are tracked as m<index>
		e.paramNames = map[int]string{}
		for i, p := range fn.Params {
			if pointsToStruct(p.Type()) {
				e.paramNames[i] = fmt.Sprintf("m%d", i)
			}
		}
	}
	var out []layoutEvents
	e.onStore = func(st *lfState, kind, name, val string, pos token.Pos, b *bv) {
		st.events = append(st.events, lfEvent{Kind: kind, Name: name, Val: val, Pos: pos, B: b})
	}
	errIdx := errResultIndex(fn)
	e.onReturn = func(st *lfState, rets []lfVal) {
		ok := true
		if errIdx >= 0 && errIdx < len(rets) {
			switch x := rets[errIdx].(type) {
			case vNilable:
				ok = x.Nil == 1
				if x.Nil == 0 {
					// unknown nil-ness: decided on this path? ("value(id) is nil" is keyed by -id)
					if isNil, has := st.decided[-x.ID]; has {
						ok = isNil
					} else {
						ok = true
					}
				}
			default:
				_ = x
			}
		}
		le := layoutEvents{Cond: append([]string{}, st.trail...), Events: append([]lfEvent{}, st.events...), Bools: map[string]bool{}, OK: ok, Cons: append([]Cons{}, st.cons...), Fields: map[string]Lin{}}
		if len(rets) > 0 {
			switch x := rets[0].(type) {
			case vPtr:
				le.Ret0Nil = x.Nil == 1
			case vNilable:
				le.Ret0Nil = x.Nil == 1
			}
		}
		le.Elem = e.elemLoads
		le.ParamSym = e.paramSyms
		le.DLen = e.dLen
		le.SymName = func(sy Sym) string {
			if int(sy) >= 0 && int(sy) < len(e.symNames) {
				return e.symNames[sy]
			}
			return ""
		}
		prefix := fmt.Sprintf("%d.", e.recvObj)
		for k, v := range st.heap {
			if strings.HasPrefix(k, prefix) {
				if iv, isInt := v.(vInt); isInt {
					le.Fields[strings.TrimPrefix(k, prefix)] = iv.E
				}
			}
		}
		for id, v := range st.decided {
			if n, has := e.boolName[id]; has {
				le.Bools[n] = v
			}
		}
		out = append(out, le)
	}
	if setup != nil {
		e.runEntry(fn, func(fr *lfFrame, st *lfState) { setup(e, fr, st) })
	} else {
		e.runEntry(fn, nil)
	}
	if e.budgetHit {
		return out, "budget exhausted"
	}
	return out, ""
}

// lastWrites folds a path's events into final values per name.
func (le layoutEvents) lastWrites(kind string) map[string]string {
	m := map[string]string{}
	for _, ev := range le.Events {
		if ev.Kind == kind {
			m[ev.Name] = ev.Val
		}
	}
	return m
}

func cmdLayout(args []string) int {
	if len(args) < 3 {
		fmt.Fprintln(os.Stderr, "usage: bmcverif layout <pkg-rel> <Type> <Method> [repo]")
		return 2
	}
	repo := "/repo"
	if len(args) > 3 {
		repo = args[3]
	}
	if os.Getenv("BMCVERIF_FIXTURES") != "" {
		modPath, minModulePackages = "fixtures", 1
	}
	c, err := loadRepo(repo, "quick", "amd64")
	if err != nil {
		fmt.Fprintln(os.Stderr, err)
		return 1
	}
	fn := c.Method(args[0], args[1], args[2])
	if fn == nil {
		fn = c.Func(args[0], args[2])
	}
	if fn == nil {
		fmt.Fprintln(os.Stderr, "not found")
		return 1
	}
	evs, why := extractEvents(c, fn, nil)
	fmt.Println(c.FnName(fn), "paths:", len(evs), why)
	for i, le := range evs {
		fmt.Printf("-- path %d ok=%v cond=[%s] bools=%v\n", i, le.OK, strings.Join(le.Cond, "; "), le.Bools)
		var fks []string
		for k := range le.Fields {
			fks = append(fks, k)
		}
		sort.Strings(fks)
		fmt.Printf("   fields=%v\n", fks)
		for _, kind := range []string{"len", "field", "wire"} {
			m := le.lastWrites(kind)
			var ks []string
			for k := range m {
				ks = append(ks, k)
			}
			sort.Strings(ks)
			for _, k := range ks {
				fmt.Printf("   %s %s = %s\n", kind, k, m[k])
			}
		}
		for _, ev := range le.Events {
			if ev.Kind == "cmp" || ev.Kind == "hash" || ev.Kind == "hashop" || ev.Kind == "stale" || ev.Kind == "sum" || strings.HasPrefix(ev.Kind, "loop:") {
				extra := ""
				if ev.Loop != nil {
					extra = fmt.Sprintf("  guard=%v", ev.Loop.Guard)
				}
				fmt.Printf("   %s %s %s%s\n", ev.Kind, ev.Name, ev.Val, extra)
			}
		}
	}
	return 0
}

// mergedLayout: per name (field or wire byte), the sorted set of distinct
// rendered values over all success paths.
func mergedLayout(evs []layoutEvents, kind string) map[string][]string {
	sets := map[string]map[string]bool{}
	nOK := 0
	for _, le := range evs {
		if !le.OK {
			continue
		}
		nOK++
		for n, v := range le.lastWrites(kind) {
			if sets[n] == nil {
				sets[n] = map[string]bool{}
			}
			sets[n][v] = true
		}
	}
	// names not written on some success path get "<unset>"
	for n := range sets {
		for _, le := range evs {
			if !le.OK {
				continue
			}
			if _, ok := le.lastWrites(kind)[n]; !ok {
				sets[n]["<unset>"] = true
			}
		}
	}
	out := map[string][]string{}
	for n, s := range sets {
		var vs []string
		for v := range s {
			vs = append(vs, v)
		}
		sort.Strings(vs)
		out[n] = vs
	}
	return out
}

func cmdLayouts(args []string) int {
	repo := "/repo"
	if len(args) > 0 {
		repo = args[0]
	}
	c, err := loadRepo(repo, "quick", "amd64")
	if err != nil {
		fmt.Fprintln(os.Stderr, err)
		return 1
	}
	for _, fn := range c.LibFuncs() {
		if fn.Signature.Recv() == nil {
			continue
		}
		kind := ""
		switch fn.Name() {
		case "SerializeTo", "Serialise":
			kind = "wire"
		case "DecodeFromBytes", "Deserialise", "Decode":
			kind = "field"
		default:
			continue
		}
		if n := recvNamed(fn); n != nil && n.Obj().Name() == "StringDecoderFunc" {
			continue
		}
		evs, why := extractEvents(c, fn, nil)
		fmt.Printf("== %s paths=%d %s\n", c.FnName(fn), len(evs), why)
		if kind == "wire" {
			ml := mergedLayout(evs, "len")
			for _, k := range layoutKeyListS(ml) {
				fmt.Printf("   len %s = %s\n", k, strings.Join(ml[k], " | "))
			}
		}
		ml := mergedLayout(evs, kind)
		for _, k := range layoutKeyListS(ml) {
			fmt.Printf("   %s = %s\n", k, strings.Join(ml[k], " | "))
		}
	}
	return 0
}

func layoutKeyListS(m map[string][]string) []string {
	var ks []string
	for k := range m {
		ks = append(ks, k)
	}
	sort.Strings(ks)
	return ks
}
