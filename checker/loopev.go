package main

import (
	"fmt"
	"strings"
)

// Generalised loop events (engine E2): what a loop body stores into, or
// compares against, a tracked byte buffer, as linear forms over the symbols
// standing for the loop-carried integers. The helpers below decide facts of
// the shape "bytes idx0, idx0+1, … up to (not including) end hold v0, v0+d, …"
// from those forms, the entry values and strides of the loop-carried integers
// and the constraints known at the back edge and after the exit — whatever
// loop statement, counter variables or helper functions the code uses.

// atEntry substitutes the entry values of the loop-carried integers into l and
// returns, with it, by how much l advances per iteration. ok=false when l
// mentions a loop-carried integer without a constant stride.
func (m *lfLoopMeta) atEntry(l Lin) (l0 Lin, adv int64, ok bool) {
	sub := map[Sym]Lin{}
	for _, sy := range m.Syms {
		k, has := l.T[sy]
		if !has {
			continue
		}
		st := m.Stride[sy]
		ent, hasE := m.Entry[sy]
		if st == 0 || !hasE {
			return Lin{}, 0, false
		}
		adv += k * st
		sub[sy] = ent
	}
	return linSubstAll(l, sub), adv, true
}

// loopRun describes a run of consecutive bytes a loop touches.
type loopRun struct {
	Ev       lfEvent
	Idx0     Lin   // first index
	V0       Lin   // value at the first index
	VAdv     int64 // by how much the value advances per byte
	ConstVal bool  // the value is the same constant for every byte (V0 is it)
}

// runOf recognises ev (a "loop:wire" or "loop:cmp" event) as a run over
// consecutive bytes: the index advances by one per iteration and the value is
// linear in the iteration.
func runOf(ev lfEvent) (loopRun, string) {
	if ev.Loop == nil || ev.Idx == nil || ev.V == nil {
		return loopRun{}, "not an element event with linear index and value"
	}
	i0, iadv, ok := ev.Loop.atEntry(*ev.Idx)
	if !ok {
		return loopRun{}, "the index depends on a loop-carried integer without constant stride"
	}
	if iadv != 1 {
		return loopRun{}, fmt.Sprintf("the index advances by %d per iteration, not by 1", iadv)
	}
	// the value: either expressed over strided integers, or tied to the index by an invariant
	v0, vadv, ok := ev.Loop.atEntry(*ev.V)
	if !ok {
		return loopRun{}, "the value depends on a loop-carried integer without constant stride"
	}
	// the relation value − vadv·index must hold throughout, which the strides imply when every
	// loop-carried integer in V and Idx is word-sized; for narrow counters it must be known
	// at the back edge (it is, when the lock-step invariant was inferred)
	rel := ev.V.add(*ev.Idx, -vadv).add(v0, -1).add(i0, vadv) // (V − vadv·Idx) − (V0 − vadv·Idx0)
	if len(rel.T) != 0 || rel.C != 0 {
		if !entails(ev.Loop.Cons, Cons{rel}) || !entails(ev.Loop.Cons, Cons{rel.scale(-1)}) {
			return loopRun{}, "cannot show that the value keeps its distance to the index over the iterations"
		}
	}
	_, isC := v0.isConst()
	return loopRun{Ev: ev, Idx0: i0, V0: v0, VAdv: vadv, ConstVal: vadv == 0 && isC}, ""
}

// coversUpTo: the run stops exactly at index end (exclusive): every iteration
// that reaches the back edge has index ≤ end−1, and after the loop (on the
// path whose constraints are given) the index is ≥ end.
func (r loopRun) coversUpTo(end Lin, after []Cons) (bool, string) {
	if !entails(r.Ev.Loop.Cons, leq(*r.Ev.Idx, end.addConst(-1))) {
		return false, "an iteration can touch an index at or beyond the end"
	}
	if !entails(after, geq(*r.Ev.Idx, end)) {
		return false, "the loop can end before the last byte"
	}
	return true, ""
}

func linEq(a, b Lin) bool {
	d := a.add(b, -1)
	return len(d.T) == 0 && d.C == 0
}

// eventsOf lists a path's events of the given kind on buffer org.
func (le layoutEvents) eventsOf(kind, org string) []lfEvent {
	var out []lfEvent
	for _, ev := range le.Events {
		if ev.Kind == kind && (ev.Org == org || (ev.Org == "" && strings.HasPrefix(ev.Name, org+"["))) {
			out = append(out, ev)
		}
	}
	return out
}

// lenOfBuf returns the requested length of the named append/prepend on this path.
func (le layoutEvents) lenOfBuf(name string) (Lin, bool) {
	for _, ev := range le.Events {
		if ev.Kind == "len" && ev.Name == name && ev.L != nil {
			return *ev.L, true
		}
	}
	return Lin{}, false
}
