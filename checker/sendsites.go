package main

import (
	"strings"

	"golang.org/x/tools/go/ssa"
)

// checkSendSites: a who-may-call rule. Everything the checks say about transmissions —
// one sequence number per datagram (C09), acceptance of authentic replies only (C04),
// retry classification (C10), context bounds (C13), accounting (C18) — is said about the
// operations handed to backoff.Retry. A datagram that leaves through any other call of
// Transport.Send (a "send once" shortcut, a probe, a keep-alive) is covered by none of it.
// Every call of Transport.Send outside the transport package must therefore lie in the
// flattened view of a retried operation.
func checkSendSites(c *Ctx, r *Report) {
	r.Rule("send-sites", "every call of Transport.Send in the library is made by an operation handed to backoff.Retry (no transmission bypasses sequence numbering, reply acceptance, retry classification and accounting)", 3)
	inClosure := map[ssa.Instruction]bool{}
	for _, rs := range c.RetrySites() {
		if rs.Op == nil {
			continue
		}
		viewInstrs(rs.Op, func(in ssa.Instruction) {
			if isCallTo(in, fnTransportSend) {
				inClosure[in] = true
			}
		})
	}
	for _, fn := range c.LibFuncs() {
		if fn.Pkg != nil && strings.HasSuffix(fn.Pkg.Pkg.Path(), "/internal/pkg/transport") {
			continue
		}
		fn := fn
		rawInstrs(fn, false, func(in ssa.Instruction) {
			if !isCallTo(in, fnTransportSend) {
				return
			}
			r.Check(inClosure[in], c.FnName(fn)+"|Transport.Send", in.Pos(), "inside a retried operation", "a datagram is transmitted outside every operation handed to backoff.Retry: it is not numbered, checked, classified or counted the way the library's transmissions are")
		})
	}
}
