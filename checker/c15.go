package main

import (
	"fmt"
	"go/constant"
	"go/token"
	"go/types"
	"sort"
	"strings"

	"golang.org/x/tools/go/ssa"
)

func init() { register("C15", checkC15) }

// ---- polynomial normal form over opaque atoms (commutative ring, conversions erased)

type poly map[string]int64 // monomial (sorted atoms joined by "*") → coefficient

func polyConst(k int64) poly {
	if k == 0 {
		return poly{}
	}
	return poly{"": k}
}
func polyAtom(a string) poly { return poly{a: 1} }
func polyAdd(a, b poly, sign int64) poly {
	out := poly{}
	for m, c := range a {
		out[m] += c
	}
	for m, c := range b {
		out[m] += sign * c
	}
	for m, c := range out {
		if c == 0 {
			delete(out, m)
		}
	}
	return out
}
func polyMul(a, b poly) poly {
	out := poly{}
	for m1, c1 := range a {
		for m2, c2 := range b {
			var atoms []string
			if m1 != "" {
				atoms = append(atoms, strings.Split(m1, "*")...)
			}
			if m2 != "" {
				atoms = append(atoms, strings.Split(m2, "*")...)
			}
			sort.Strings(atoms)
			out[strings.Join(atoms, "*")] += c1 * c2
		}
	}
	for m, c := range out {
		if c == 0 {
			delete(out, m)
		}
	}
	return out
}
func (p poly) String() string {
	var ms []string
	for m := range p {
		ms = append(ms, m)
	}
	sort.Strings(ms)
	var parts []string
	for _, m := range ms {
		parts = append(parts, fmt.Sprintf("%d·[%s]", p[m], m))
	}
	return strings.Join(parts, " + ")
}

// polyOf turns an SSA arithmetic expression into a polynomial; atom names a
// leaf (field load, parameter, T(field) for math.Pow10(int(field))).
func polyOf(v ssa.Value, atom func(ssa.Value) string) (poly, error) {
	return polyOfIn(nil, v, atom)
}

// polyOfIn is polyOf in the flattened view of root: a term that is the result
// of a spliced helper (or one of its parameters) is followed to what it stands
// for when that is a single value.
func polyOfIn(root *ssa.Function, v ssa.Value, atom func(ssa.Value) string) (poly, error) {
	if a := atom(v); a != "" {
		return polyAtom(a), nil
	}
	if root != nil {
		switch v.(type) {
		case *ssa.Extract, *ssa.Parameter, *ssa.Phi:
			if os := viewOrigins(root, v); len(os) == 1 && os[0] != v {
				return polyOfIn(root, os[0], atom)
			}
		case *ssa.Call:
			if os := viewOrigins(root, v); len(os) == 1 && os[0] != v {
				return polyOfIn(root, os[0], atom)
			}
		}
	}
	switch x := v.(type) {
	case *ssa.Const:
		if x.Value != nil && x.Value.Kind() == constant.Int {
			k, _ := constant.Int64Val(x.Value)
			return polyConst(k), nil
		}
		if x.Value != nil && x.Value.Kind() == constant.Float {
			if f, ok := constant.Float64Val(x.Value); ok && f == float64(int64(f)) {
				return polyConst(int64(f)), nil
			}
		}
		return nil, fmt.Errorf("non-integer constant %v", x)
	case *ssa.Convert:
		return polyOfIn(root, x.X, atom)
	case *ssa.ChangeType:
		return polyOfIn(root, x.X, atom)
	case *ssa.BinOp:
		l, err := polyOfIn(root, x.X, atom)
		if err != nil {
			return nil, err
		}
		r, err := polyOfIn(root, x.Y, atom)
		if err != nil {
			return nil, err
		}
		switch x.Op {
		case token.ADD:
			return polyAdd(l, r, 1), nil
		case token.SUB:
			return polyAdd(l, r, -1), nil
		case token.MUL:
			return polyMul(l, r), nil
		}
		return nil, fmt.Errorf("operator %s", x.Op)
	case *ssa.Call:
		if calleeName(&x.Call) == "math.Pow10" {
			if a := atom(stripConv(x.Call.Args[0])); a != "" {
				return polyAtom("T(" + a + ")"), nil
			}
		}
	}
	if a := atom(v); a != "" {
		return polyAtom(a), nil
	}
	return nil, fmt.Errorf("unrecognised term %s", v)
}

func checkC15(c *Ctx, r *Report) {
	r.Explain = "Sensor conversion as structure: (1) the polynomial normal form of ConversionFactors.ConvertReading's returned expression (conversions erased, T(k)=10^k opaque) equals (M·x + B·T(BExp))·T(RExp); (2) the lineariser table maps each of the 11 linearisation codes to the specified function (closures: a single math.Pow with the stated constant exponent/base); (3) the analog-format parser table maps unsigned/1's/2's complement to zero-extension, complement.Ones and sign-extension; (4) exact true-sets of IsLinear and IsLinearised; (5) reader selection and, in Read, the order and sentinels of the reading-unavailable and scanning-disabled tests before the conversion; (6) which wire bits feed the flags. Not floating-point accuracy."
	r.NotDecided = []string{"floating-point rounding of math.Pow10 and the linearisation functions", "wire layout of M/B/exponents (C07)"}
	r.Trusted = []string{"go/types, go/ssa (x/tools v0.29.0)", "package math", "IPMI v2.0 §36.3 formula and table 43-1 linearisation codes"}
	ir := newInitReader(c)

	// (1) formula
	r.Rule("formula", "ConvertReading returns (M·x + B·10^K1)·10^K2 with K1 = BExp and K2 = RExp", 1)
	if f := c.Method("pkg/ipmi", "ConversionFactors", "ConvertReading"); f == nil {
		r.Lost("ipmi.ConversionFactors.ConvertReading")
	} else {
		name := c.FnName(f)
		r.Fn(name)
		recv, raw := f.Params[0], f.Params[1]
		atom := func(v ssa.Value) string {
			if v == ssa.Value(raw) {
				return "x"
			}
			if ld, ok := v.(*ssa.UnOp); ok && ld.Op == token.MUL {
				a := apOf(ld.X)
				if a.Root == ssa.Value(recv) && len(a.Sel) == 1 {
					return a.Sel[0]
				}
			}
			return ""
		}
		rets := returnsOf(f)
		if len(rets) != 1 || hasLoop(f) {
			r.Unk(name+"|shape", f.Pos(), "expected a single straight-line return")
		} else {
			if w := narrowArithmetic(rets[0].Results[0]); w != "" {
				r.Bad(name+"|integer width", f.Pos(), "integer arithmetic in the conversion can overflow: "+w)
			} else {
				r.OK(name+"|integer width", f.Pos(), "every integer product/sum is computed in a type wide enough for its operands")
			}
			got, err := polyOf(rets[0].Results[0], atom)
			want := polyAdd(polyMul(polyMul(polyAtom("M"), polyAtom("x")), polyAtom("T(RExp)")), polyMul(polyMul(polyAtom("B"), polyAtom("T(BExp)")), polyAtom("T(RExp)")), 1)
			if err != nil {
				r.Bad(name+"|normal form", f.Pos(), "returned expression is not a polynomial in M, x, B, 10^BExp, 10^RExp: "+err.Error())
			} else {
				r.Check(got.String() == want.String(), name+"|normal form", f.Pos(), got.String(), "formula is "+got.String()+", specification: "+want.String())
			}
		}
	}

	// (2) lineariser table
	r.Rule("linearisers", "each linearisation code maps to the specified function", 11)
	tbl, g := ir.globalByType("pkg/ipmi", "linearisationLinearisers", "map["+modPath+"/pkg/ipmi.Linearisation]"+modPath+"/pkg/ipmi.Lineariser")
	if g == nil {
		// locate by type: map[Linearisation]Lineariser
		r.Lost("ipmi lineariser table")
	} else {
		want := map[int64]string{1: "math.Log", 2: "math.Log10", 3: "math.Log2", 4: "math.Exp", 5: "pow(10,x)", 6: "math.Exp2", 7: "pow(x,-1)", 8: "pow(x,2)", 9: "pow(x,3)", 10: "math.Sqrt", 11: "pow(x,1/3)"}
		got := map[int64]string{}
		for _, e := range tbl.Entries {
			k, ok := e.K.Int()
			if !ok {
				continue
			}
			got[k] = describeLineariser(e.V)
		}
		for k, w := range want {
			r.Check(got[k] == w, fmt.Sprintf("linearisation %d", k), g.Pos(), got[k], fmt.Sprintf("linearisation code %d maps to %q, specification says %q", k, got[k], w))
		}
		for k := range got {
			if _, ok := want[k]; !ok {
				r.Bad(fmt.Sprintf("linearisation %d", k), g.Pos(), "table has an entry for a code with no linearisation formula")
			}
		}
	}

	// (3) analog data format parsers
	r.Rule("analog-parsers", "unsigned → zero-extension; 1's complement → complement.Ones; 2's complement → sign-extension of the byte", 3)
	ptbl, pg := ir.globalByType("pkg/ipmi", "analogDataFormatParsers", "map["+modPath+"/pkg/ipmi.AnalogDataFormat]"+modPath+"/pkg/ipmi.AnalogDataFormatParser")
	if pg == nil {
		r.Lost("ipmi analog data format parser table")
	} else {
		want := map[int64]string{0: "zext8", 1: "ones", 2: "sext8"}
		got := map[int64]string{}
		for _, e := range ptbl.Entries {
			if k, ok := e.K.Int(); ok && e.V.Kind == "func" {
				got[k] = describeParser(e.V.Func)
			}
		}
		for k, w := range want {
			r.Check(got[k] == w, fmt.Sprintf("analog format %d", k), pg.Pos(), got[k], fmt.Sprintf("analog data format %d parses as %q, want %q", k, got[k], w))
		}
		for k := range got {
			if _, ok := want[k]; !ok {
				r.Bad(fmt.Sprintf("analog format %d", k), pg.Pos(), "a parser exists for a format that has no analog reading")
			}
		}
	}

	// (4) predicates
	r.Rule("linearisation-classes", "IsLinear = {0}; IsLinearised = {1..11}", 2)
	for _, pw := range []struct{ m, want string }{{"IsLinear", "{0x0}"}, {"IsLinearised", "{0x1-0xB}"}} {
		f := c.Method("pkg/ipmi", "Linearisation", pw.m)
		if f == nil {
			r.Lost("ipmi.Linearisation." + pw.m)
			continue
		}
		r.Fn(c.FnName(f))
		set, err := predicateTrueSet(f, 0, 255)
		if err != nil {
			r.Unk("ipmi.Linearisation."+pw.m+"|true-set", f.Pos(), err.Error())
			continue
		}
		r.Check(rangesString(set) == pw.want, "ipmi.Linearisation."+pw.m+"|true-set", f.Pos(), rangesString(set), "true-set is "+rangesString(set)+", want "+pw.want)
	}

	// (5) reader selection and flag handling
	checkSensorReaders(c, r)

	// (6) the flags and the raw reading come from the specified wire bits, on every decode
	// (a reader polls by decoding into the same response value again and again)
	r.Rule("reading-flags-layout", "Get Sensor Reading response: reading = byte 0, event messages [7], scanning enabled [6], reading unavailable [5] of byte 1 (IPMI v2.0 §35.14), assigned on every success path", 5)
	for _, sp := range responseSpecs {
		if sp.Type == "GetSensorReadingRsp" {
			compareSpec(c, r, []layerSpec{sp}, "field", nil)
		}
	}
	// (7) the factors the formula is fed with come from the specified bits of the record,
	// sign-extended as specified (10-bit M and B, 4-bit exponents) — shared table with C07
	r.Rule("record-factors-layout", "Full Sensor Record: M = sext10(byte 20[7:6]:byte 19), B = sext10(byte 22[7:6]:byte 21), R exponent = sext4(byte 24[7:4]), B exponent = sext4(byte 24[3:0]), analog format = byte 15[7:6], linearisation = byte 18[6:0] (IPMI v2.0 §43.1)", 6)
	for _, sp := range responseSpecs {
		if sp.Type == "FullSensorRecord" {
			sub := sp
			sub.Want = map[string][]string{}
			for _, k := range []string{"AnalogDataFormat", "Linearisation", "ConversionFactors.M", "ConversionFactors.B", "ConversionFactors.RExp", "ConversionFactors.BExp"} {
				if w, ok := sp.Want[k]; ok {
					sub.Want[k] = w
				}
			}
			compareSpec(c, r, []layerSpec{sub}, "field", nil)
		}
	}
	r.Rule("reading-flags-layout", "Get Sensor Reading response: reading = byte 0, event messages [7], scanning enabled [6], reading unavailable [5] of byte 1 (IPMI v2.0 §35.14), assigned on every success path", 5)
	if fn := c.Method("pkg/ipmi", "GetSensorReadingRsp", "DecodeFromBytes"); fn != nil {
		lf := newLenflow(c, 4)
		lf.runEntry(fn, nil)
		k := &c17{c: c, lf: lf, cache: map[*ssa.Function]*writeSummary{}, busy: map[*ssa.Function]bool{}}
		reportAssignment(c, r, k, fn)
	} else {
		r.Lost("ipmi.GetSensorReadingRsp.DecodeFromBytes")
	}
}

// bitsOf returns the size in bits of a basic integer type (0 if not an integer).
func bitsOf(t types.Type) int {
	b, ok := t.Underlying().(*types.Basic)
	if !ok || b.Info()&types.IsInteger == 0 {
		return 0
	}
	switch b.Kind() {
	case types.Int8, types.Uint8:
		return 8
	case types.Int16, types.Uint16:
		return 16
	case types.Int32, types.Uint32:
		return 32
	}
	return 64
}

// narrowArithmetic walks an arithmetic expression and reports integer
// operations whose result type cannot hold the range of their operands
// (operands sized by the narrowest type on their conversion chain).
func narrowArithmetic(v ssa.Value) string {
	var need func(v ssa.Value) int
	bad := ""
	need = func(v ssa.Value) int {
		switch x := v.(type) {
		case *ssa.Convert:
			if bitsOf(x.X.Type()) == 0 {
				return bitsOf(x.Type())
			}
			n := need(x.X)
			if b := bitsOf(x.Type()); b != 0 && b < n {
				return b // truncating conversion: range shrinks (its correctness is a layout question)
			}
			return n
		case *ssa.ChangeType:
			return need(x.X)
		case *ssa.BinOp:
			if bitsOf(x.Type()) == 0 {
				need(x.X)
				need(x.Y)
				return 0
			}
			a, b := need(x.X), need(x.Y)
			req := 0
			switch x.Op {
			case token.MUL:
				req = a + b
			case token.ADD, token.SUB:
				req = a
				if b > req {
					req = b
				}
				req++
			default:
				return bitsOf(x.Type())
			}
			if req > 64 {
				req = 64
			}
			if have := bitsOf(x.Type()); have < req {
				bad = fmt.Sprintf("%s computed in %d bits needs %d", x.Op, have, req)
			}
			return req
		case *ssa.Call:
			for _, a := range x.Call.Args {
				need(a)
			}
			return bitsOf(x.Type())
		case *ssa.Const:
			return 1
		}
		return bitsOf(v.Type())
	}
	need(v)
	return bad
}

func describeLineariser(v *GVal) string {
	if v == nil || v.Kind != "func" {
		return "?"
	}
	f := v.Func
	if f.Blocks == nil || (f.Pkg != nil && f.Pkg.Pkg.Path() == "math") {
		return f.String()
	}
	// closure: single return of math.Pow(a, b)
	rets := returnsOf(f)
	if len(rets) != 1 || len(f.Params) != 1 {
		return "?closure"
	}
	call, ok := rets[0].Results[0].(*ssa.Call)
	if !ok || calleeName(&call.Call) != "math.Pow" {
		return "?closure"
	}
	arg := func(a ssa.Value) string {
		if a == ssa.Value(f.Params[0]) {
			return "x"
		}
		var kv constant.Value
		if k, ok := a.(*ssa.Const); ok && k.Value != nil {
			kv = k.Value
		}
		// a captured variable holding a constant (the closure is built by a helper taking the exponent)
		if ld, ok := a.(*ssa.UnOp); ok && ld.Op == token.MUL {
			if fv, ok := ld.X.(*ssa.FreeVar); ok {
				if b := v.Bind[fv]; b != nil && b.Kind == "const" && b.Const != nil {
					kv = b.Const
				}
			}
		}
		if kv != nil {
			if fl, ok := constant.Float64Val(constant.ToFloat(kv)); ok {
				switch {
				case fl == float64(int64(fl)):
					return fmt.Sprint(int64(fl))
				case fl == 1.0/3:
					return "1/3"
				}
				return fmt.Sprint(fl)
			}
		}
		return "?"
	}
	return "pow(" + arg(call.Call.Args[0]) + "," + arg(call.Call.Args[1]) + ")"
}

func describeParser(f *ssa.Function) string {
	rets := returnsOf(f)
	if len(rets) != 1 || len(f.Params) != 1 || hasLoop(f) {
		return "?"
	}
	v := rets[0].Results[0]
	cv, ok := v.(*ssa.Convert)
	if !ok {
		return "?"
	}
	if cv.X == ssa.Value(f.Params[0]) {
		return "zext8" // int16(uint8)
	}
	switch x := cv.X.(type) {
	case *ssa.Convert:
		if x.X == ssa.Value(f.Params[0]) && x.Type().String() == "int8" {
			return "sext8"
		}
	case *ssa.Call:
		if strings.HasSuffix(calleeName(&x.Call), "internal/pkg/complement.Ones") && x.Call.Args[0] == ssa.Value(f.Params[0]) {
			return "ones"
		}
	}
	return "?"
}

func checkSensorReaders(c *Ctx, r *Report) {
	// NewSensorReader: a function in bmc returning (SensorReader, error) and taking *ipmi.FullSensorRecord
	fsr := c.Named("pkg/ipmi", "FullSensorRecord")
	var ctor *ssa.Function
	for _, fn := range c.LibFuncs() {
		if fn.Pkg != nil && c.libFn(fn) && fn.Object() != nil && fn.Object().Exported() && len(fn.Params) == 1 && isPtrTo(fn.Params[0].Type(), fsr) && fn.Signature.Results().Len() == 2 {
			ctor = fn
		}
	}
	r.Rule("reader-selection", "a reader is built only for linear (IsLinear) and linearised (IsLinearised) sensors with an analog data format; anything else is an error", 3)
	if ctor == nil {
		r.Lost("NewSensorReader")
		return
	}
	name := c.FnName(ctor)
	r.Fn(name)
	// each non-error return must be behind the true edge of IsLinear or IsLinearised on r.Linearisation
	var linIf, lisedIf *ssa.If
	for _, ifi := range ifsOf(ctor) {
		if call, ok := ifi.Cond.(*ssa.Call); ok {
			switch calleeName(&call.Call) {
			case "(github.com/gebn/bmc/pkg/ipmi.Linearisation).IsLinear":
				linIf = ifi
			case "(github.com/gebn/bmc/pkg/ipmi.Linearisation).IsLinearised":
				lisedIf = ifi
			}
		}
	}
	if linIf == nil || lisedIf == nil {
		// the selection is not written as two tests (a table of predicates and constructors, a
		// helper): ask engine E1 which constructor NewSensorReader enters first when the record's
		// linearisation is pinned to a member of each class (the classes themselves are decided
		// by `linearisation-classes`)
		okDisp, whyDisp := readerDispatch(c, ctor)
		r.Check(okDisp, name+"|classification", ctor.Pos(), "linearisation 0 → linear reader; 1..11 → linearised reader; anything else → error, no reader", "reader selection does not build the linear reader exactly for IsLinear and the linearised reader exactly for IsLinearised records: "+whyDisp)
		if okDisp {
			r.OK(name+"|linear reader", ctor.Pos(), "linear reader only on its class (dispatch evaluated)")
			r.OK(name+"|linearised reader", ctor.Pos(), "linearised reader only on its class (dispatch evaluated)")
			r.OK(name+"|unsupported", ctor.Pos(), "unsupported linearisation is an error (dispatch evaluated)")
		}
	}
	for _, ret := range returnsOf(ctor) {
		if linIf == nil || lisedIf == nil {
			break // decided by the dispatch evaluation above
		}
		call, isCall := ret.Results[0].(*ssa.Extract)
		_ = call
		v := ret.Results[0]
		if isNilConst(v) {
			continue
		}
		_ = isCall
		// which constructor produced it
		var prod *ssa.Function
		for _, l := range possibleValues(v) {
			for _, x := range []ssa.Value{l, stripConv(l)} {
				if ex, ok := x.(*ssa.Extract); ok {
					if cc, ok := ex.Tuple.(*ssa.Call); ok {
						prod = cc.Call.StaticCallee()
					}
				}
			}
		}
		if prod == nil {
			r.Unk(name+"|return", ret.Pos(), "cannot identify the reader constructor")
			continue
		}
		usesLineariser := false
		allInstrs(prod, false, func(in ssa.Instruction) {
			if cc := asCall(in); cc != nil && calleeName(cc) == "(github.com/gebn/bmc/pkg/ipmi.Linearisation).Lineariser" {
				usesLineariser = true
			}
		})
		guard := linIf
		kind := "linear"
		if usesLineariser {
			guard = lisedIf
			kind = "linearised"
		}
		ok := !reachAvoiding(ctor, nil, nil, map[edge]bool{{guard.Block(), guard.Block().Succs[0]}: true})[ret.Block()]
		r.Check(ok, name+"|"+kind+" reader", ret.Pos(), kind+" reader only on its class", "a "+kind+" reader is returned for a record outside its linearisation class")
		// the producer must obtain the parser via AnalogDataFormat.Parser() and fail if it errors
		r.Fn(c.FnName(prod))
	}
	// default arm → error
	okDef := false
	for _, ret := range returnsOf(ctor) {
		if isNilConst(ret.Results[0]) && !isNilConst(ret.Results[1]) {
			okDef = true
		}
	}
	if linIf != nil && lisedIf != nil {
		r.Check(okDef, name+"|unsupported", ctor.Pos(), "unsupported linearisation is an error", "no error return for non-linear sensors")
	}

	// "x is the raw byte interpreted as unsigned, one's-complement or two's-complement as the
	// record states" — and as nothing else: the parser a reader keeps is the one the record's
	// analog data format selects from the parser table, not something layered on top of it
	// (clamping to the record's min/max, smoothing, …)
	r.Rule("reader-parser-from-table", "the parser stored in a sensor reader is the result of the record's AnalogDataFormat.Parser() itself", 1)
	{
		nSt := 0
		// (wherever in the library a reader is given its parser: the per-kind constructors may be
		// reached through a dispatch table rather than spliced into NewSensorReader's view)
		for _, pfn := range c.LibFuncs() {
			pfn := pfn
			if !c.libFn(pfn) {
				continue
			}
			rawInstrs(pfn, false, func(in ssa.Instruction) {
				ctor := pfn
				st, ok := in.(*ssa.Store)
				if !ok {
					return
				}
				fa, ok := st.Addr.(*ssa.FieldAddr)
				if !ok {
					return
				}
				f := structField(fa.X.Type(), fa.Field)
				if f == nil || types.TypeString(f.Type(), nil) != modPath+"/pkg/ipmi.AnalogDataFormatParser" {
					return
				}
				nSt++
				okP, why := true, ""
				os := viewOrigins(ctor, st.Val)
				if len(os) == 0 {
					os = []ssa.Value{st.Val}
				}
				for _, o := range os {
					ex, isEx := stripConv(o).(*ssa.Extract)
					if !isEx || ex.Index != 0 {
						okP, why = false, exprText(o)
						continue
					}
					call, isCall := ex.Tuple.(*ssa.Call)
					if !isCall || calleeName(&call.Call) != "("+modPath+"/pkg/ipmi.AnalogDataFormat).Parser" {
						okP, why = false, exprText(o)
					}
				}
				r.Check(okP, c.FnName(pfn)+"|parser ← AnalogDataFormat.Parser()", st.Pos(), "the table's parser for the record's analog data format", "the reader's parser is not the one the record's analog data format selects ("+why+"): the raw byte is not interpreted as the record states")
			})
		}
		if nSt == 0 {
			r.Unk(name+"|parser field", ctor.Pos(), "no store of an AnalogDataFormatParser into a reader found in the constructor's view")
		}
	}

	// construction never succeeds over a failure: on every path of the exported constructor
	// (the per-kind constructors are part of its flattened view) that returns a reader, every
	// error a module call returned was compared with nil
	r.Rule("constructor-errors", "NewSensorReader returns a reader only on paths where every error returned by the record's accessors and the inner constructors was examined", 1)
	{
		okErr := true
		var whyErr string
		var posErr token.Pos = ctor.Pos()
		complete := enumPaths(ctor, 1, 20000, func(p CPath) {
			ret, isRet := p.Last().(*ssa.Return)
			if !isRet || ret.Parent() != ctor || c.errOutcome(ctor, p) == 1 {
				return
			}
			for _, call := range p.untestedErrors(func(f *ssa.Function) bool { return c.InModule(f) }, modPath) {
				okErr = false
				whyErr = "a reader is returned although the error of " + shortName(calleeName(&call.Call)) + " was never examined"
				posErr = call.Pos()
			}
		})
		if !complete {
			r.Unk(name+"|errors examined", ctor.Pos(), "too many paths")
		} else {
			r.Check(okErr, name+"|errors examined", posErr, "every module error is compared with nil before a reader is returned", whyErr)
		}
	}

	// a reading is never a stale one: every error-free SendCommand decoded the reply's body into
	// the response layer Read then looks at (rule shared with C17, C07)
	checkResponseAlwaysDecoded(c, r)

	checkSensorRead(c, r)
}

// checkSensorRead: the Read methods of the two sensor readers (shared with C20: the analog
// parsers and the conversion are applied, on every read, to the raw byte of the response just
// decoded — not to a cached or precomputed stand-in).
func checkSensorRead(c *Ctx, r *Report) {
	// Read methods
	r.Rule("read-flags", "Read converts the raw byte only after ReadingUnavailable tested false (else the reading-unavailable sentinel) and then ScanningEnabled tested true (else the scanning-disabled sentinel); the raw byte goes through the record's parser and factors; the linearised reader applies its lineariser to the linear result", 4)
	// the two reader types are whatever implements SensorReader: the linearised one is the
	// one that holds a lineariser
	var lin, lsd *ssa.Function
	for _, nt := range c.implementors("", "", "SensorReader", "Read") {
		st, ok := nt.Underlying().(*types.Struct)
		if !ok {
			continue
		}
		holdsLineariser := false
		for i := 0; i < st.NumFields(); i++ {
			if types.TypeString(st.Field(i).Type(), nil) == modPath+"/pkg/ipmi.Lineariser" {
				holdsLineariser = true
			}
		}
		if holdsLineariser && lsd == nil {
			lsd = c.MethodOf(nt, "Read")
		} else if !holdsLineariser && lin == nil {
			lin = c.MethodOf(nt, "Read")
		}
	}
	if lin == nil || lsd == nil {
		r.Lost("sensor reader Read methods")
		return
	}
	lname := c.FnName(lin)
	r.Fn(lname)
	r.Fn(c.FnName(lsd))
	var conv *ssa.Call
	allInstrs(lin, false, func(in ssa.Instruction) {
		if call, ok := in.(*ssa.Call); ok && strings.HasSuffix(calleeName(&call.Call), "ConversionFactors).ConvertReading") {
			conv = call
		}
	})
	// Decided per feasible path of Read's flattened view (the flag tests may sit in a helper,
	// as ifs or as a switch): which of the two response flags the path decided, in which order,
	// and what it returns.
	type flagFact struct {
		flag string
		val  bool
		at   int
	}
	okUnavail, okScan, okGuard, okOrder, okSendFirst := true, true, true, true, true
	okOnlyU, okOnlyS := true, true
	var posOnly token.Pos
	nUnavail, nScan, nConv := 0, 0, 0
	var posU, posS token.Pos
	sentinelNamed := func(p CPath, v ssa.Value, name string) bool {
		ld, ok := p.Resolve(v).(*ssa.UnOp)
		if !ok || ld.Op != token.MUL {
			return false
		}
		g, ok := ld.X.(*ssa.Global)
		return ok && g.Name() == name && c.sentinelError(g)
	}
	complete := conv != nil && enumPaths(lin, 1, 20000, func(p CPath) {
		ret, isRet := p.Last().(*ssa.Return)
		if !isRet || ret.Parent() != lin || len(ret.Results) != 2 {
			return
		}
		occs := p.OccsPos()
		sendAt := -1
		convAt := -1
		for i, oc := range occs {
			if call, ok := oc.In.(*ssa.Call); ok {
				if call.Call.IsInvoke() && call.Call.Method.Name() == "SendCommand" && sendAt < 0 {
					sendAt = i
				}
				if call == conv {
					convAt = i
				}
			}
		}
		var facts []flagFact
		for _, bf := range p.boolFacts() {
			ld, ok := bf.V.(*ssa.UnOp)
			if !ok || ld.Op != token.MUL {
				continue
			}
			at := lastOcc(occs, len(occs)-1, bf.If)
			switch p.AP(ld.X).SelString() {
			case fReading + ".Rsp.ReadingUnavailable":
				facts = append(facts, flagFact{"unavailable", bf.True, at})
				posU = ld.Pos()
			case fReading + ".Rsp.ScanningEnabled":
				facts = append(facts, flagFact{"scanning", bf.True, at})
				posS = ld.Pos()
			}
		}
		sort.Slice(facts, func(i, j int) bool { return facts[i].at < facts[j].at })
		var sawUnavailFalse, sawScanTrue bool
		for _, f := range facts {
			if sendAt < 0 || f.at < sendAt {
				okSendFirst = false
			}
			switch {
			case f.flag == "unavailable" && f.val:
				nUnavail++
				if !sentinelNamed(p, ret.Results[1], "ErrSensorReadingUnavailable") {
					okUnavail = false
				}
			case f.flag == "unavailable" && !f.val:
				sawUnavailFalse = true
			case f.flag == "scanning" && !f.val:
				nScan++
				// the unavailable flag takes precedence: it was found clear before this test
				if !sawUnavailFalse {
					okOrder = false
				} else if !sentinelNamed(p, ret.Results[1], "ErrSensorScanningDisabled") {
					okScan = false
				}
			case f.flag == "scanning" && f.val:
				if !sawUnavailFalse {
					okOrder = false
				}
				sawScanTrue = true
			}
		}
		// "exactly when the BMC sets those flags": a flag sentinel is returned on no other path
		// (not for a failed exchange, a short reply, a non-normal completion code)
		if sentinelNamed(p, ret.Results[1], "ErrSensorReadingUnavailable") {
			has := false
			for _, f := range facts {
				if f.flag == "unavailable" && f.val {
					has = true
				}
			}
			if !has {
				okOnlyU = false
				posOnly = ret.Pos()
			}
		}
		if sentinelNamed(p, ret.Results[1], "ErrSensorScanningDisabled") {
			has := false
			for _, f := range facts {
				if f.flag == "scanning" && !f.val {
					has = true
				}
			}
			if !has {
				okOnlyS = false
				posOnly = ret.Pos()
			}
		}
		if convAt >= 0 {
			nConv++
			if !(sawUnavailFalse && sawScanTrue) {
				okGuard = false
			}
			for _, f := range facts {
				if f.at > convAt {
					okGuard = false
				}
			}
		}
	})
	if !complete || nUnavail == 0 || nScan == 0 || nConv == 0 {
		r.Bad(lname+"|flags", lin.Pos(), "Read does not test both ReadingUnavailable and ScanningEnabled before converting")
	} else {
		r.Check(okUnavail, lname+"|unavailable → sentinel", posU, "ErrSensorReadingUnavailable exactly when the flag is set", "the reading-unavailable flag does not produce ErrSensorReadingUnavailable")
		r.Check(okScan, lname+"|scanning disabled → sentinel", posS, "ErrSensorScanningDisabled exactly when scanning is off", "a cleared scanning-enabled flag does not produce ErrSensorScanningDisabled")
		r.Check(okOnlyU && okOnlyS, lname+"|sentinels only for flags", posOnly, "the two flag sentinels are returned only on paths that read the corresponding flag in the decoded response", fmt.Sprintf("a flag sentinel is returned on a path that did not find the flag in the response (reading-unavailable only for its flag: %v, scanning-disabled only for its flag: %v): a failed or truncated exchange is reported as a statement by the BMC", okOnlyU, okOnlyS))
		r.Check(okGuard && okOrder && okSendFirst, lname+"|conversion guarded", conv.Pos(), "conversion only when available and scanning, after the command", fmt.Sprintf("conversion reachable with flags-guarded=%v unavailable-first=%v after-command=%v", okGuard, okOrder, okSendFirst))
		// data flow: ConvertReading(parser.Parse(Rsp.Reading)) with factors of the reader
		okFlow := false
		if pc, ok := conv.Call.Args[1].(*ssa.Call); ok && pc.Call.IsInvoke() && pc.Call.Method.Name() == "Parse" {
			// the byte parsed is the response's reading — read where Read is, or handed to a spliced
			// helper as an argument
			isReading := false
			if ld, ok := pc.Call.Args[0].(*ssa.UnOp); ok && apOf(ld.X).SelString() == fReading+".Rsp.Reading" {
				isReading = true
			} else if os := viewOrigins(lin, pc.Call.Args[0]); len(os) > 0 {
				isReading = true
				for _, o := range os {
					ld, isLd := stripConv(o).(*ssa.UnOp)
					if !isLd || ld.Op != token.MUL {
						isReading = false
						continue
					}
					aps := viewAPs(lin, ld.X)
					if len(aps) == 0 {
						isReading = false
					}
					for _, a := range aps {
						if a.SelString() != fReading+".Rsp.Reading" {
							isReading = false
						}
					}
				}
			}
			if isReading {
				// the parser and the factors are the reader's own (its one field of each type)
				pa, fa := apOf(pc.Call.Value), apOf(conv.Call.Args[0])
				if as := viewAPs(lin, pc.Call.Value); len(as) == 1 {
					pa = as[0]
				}
				if as := viewAPs(lin, conv.Call.Args[0]); len(as) == 1 {
					fa = as[0]
				}
				ownField := func(a AP, typ string) bool {
					if len(a.Sel) != 1 {
						return false
					}
					if cp := cellParam0(a.Root); a.Root != ssa.Value(lin.Params[0]) && (cp == nil || ssa.Value(cp) != ssa.Value(lin.Params[0])) {
						return false
					}
					rn := recvNamed(lin)
					if rn == nil {
						return false
					}
					f := c.Field(rn, a.Sel[0])
					return f != nil && types.TypeString(f.Type(), nil) == modPath+"/pkg/ipmi."+typ
				}
				if ownField(pa, "AnalogDataFormatParser") && ownField(fa, "ConversionFactors") {
					okFlow = true
				}
			}
		}
		r.Check(okFlow, lname+"|data flow", conv.Pos(), "factors.ConvertReading(parser.Parse(Rsp.Reading))", "the converted value is not factors.ConvertReading(parser.Parse(response reading))")
	}
	// linearised: lineariser.Linearise(linearReader.Read(...)) with error propagated
	okL := false
	allInstrs(lsd, false, func(in ssa.Instruction) {
		if call, ok := in.(*ssa.Call); ok && call.Call.IsInvoke() && call.Call.Method.Name() == "Linearise" {
			if ex, ok := call.Call.Args[0].(*ssa.Extract); ok && ex.Index == 0 {
				if rc, ok := ex.Tuple.(*ssa.Call); ok && rc.Call.StaticCallee() == lin && len(apOf(call.Call.Value).Sel) == 1 {
					for _, ret := range returnsOf(lsd) {
						if ret.Results[0] == ssa.Value(call) && isNilConst(ret.Results[1]) {
							okL = true
						}
					}
				}
			}
		}
	})
	r.Check(okL, c.FnName(lsd)+"|L(linear reading)", lsd.Pos(), "lineariser applied to the linear reader's result", "the linearised reader does not return lineariser.Linearise(linear reading)")
	// ... and it has no errors of its own: whatever the linearisation function yields (±Inf and NaN
	// included) is the reading; the only errors are the linear reader's, handed on as they are
	okE, whyE := true, ""
	for _, ret := range returnsOf(lsd) {
		if len(ret.Results) != 2 {
			continue
		}
		for _, v := range possibleValues(ret.Results[1]) {
			if isNilConst(v) {
				continue
			}
			if ex, ok := v.(*ssa.Extract); ok {
				if rc, ok := ex.Tuple.(*ssa.Call); ok && rc.Call.StaticCallee() == lin {
					continue
				}
			}
			okE, whyE = false, exprText(v)
		}
	}
	r.Check(okE, c.FnName(lsd)+"|errors are the linear reader's", lsd.Pos(), "nil or the linear reader's error", "the linearised reader returns an error of its own ("+whyE+"): a flag sentinel or failure the BMC did not cause")
}

// readerDispatch evaluates NewSensorReader with the record's Linearisation pinned: for each
// representative value, on every feasible path, which of the reader constructors (functions
// returning a pointer to a type that implements SensorReader) is entered first, and whether an
// error comes back.
func readerDispatch(c *Ctx, ctor *ssa.Function) (bool, string) {
	// producers: module functions whose first result is a pointer to a reader type; the one that
	// asks the record for its lineariser builds the linearised reader
	var linP, lsdP *ssa.Function
	for _, nt := range c.implementors("", "", "SensorReader", "Read") {
		for _, fn := range c.LibFuncs() {
			if fn.Signature.Recv() != nil || fn.Parent() != nil || fn.Signature.Results().Len() != 2 {
				continue
			}
			if !isPtrTo(fn.Signature.Results().At(0).Type(), nt) {
				continue
			}
			uses := false
			rawInstrs(fn, false, func(in ssa.Instruction) {
				if cc := asCall(in); cc != nil && strings.HasSuffix(calleeName(cc), "ipmi.Linearisation).Lineariser") {
					uses = true
				}
			})
			if uses {
				lsdP = fn
			} else {
				linP = fn
			}
		}
	}
	if linP == nil || lsdP == nil || len(ctor.Params) == 0 {
		return false, "reader constructors not found"
	}
	for _, tc := range []struct {
		k    int64
		want *ssa.Function
	}{{0, linP}, {1, lsdP}, {5, lsdP}, {11, lsdP}, {12, nil}, {0x70, nil}, {0xff, nil}} {
		e := newLenflow(c, 6)
		good, n := true, 0
		why := ""
		e.onEnter = func(st *lfState, callee *ssa.Function) {
			if callee == linP || callee == lsdP {
				st.trail = append(st.trail, "enter:"+callee.Name())
			}
		}
		e.onReturn = func(st *lfState, rets []lfVal) {
			n++
			var first string
			for _, t := range st.trail {
				if strings.HasPrefix(t, "enter:") {
					first = strings.TrimPrefix(t, "enter:")
					break
				}
			}
			switch {
			case tc.want == nil:
				errNonNil := false
				if len(rets) == 2 {
					if ev, ok := rets[1].(vNilable); ok && ev.Nil == 2 {
						errNonNil = true
					}
				}
				if first != "" || !errNonNil {
					good, why = false, fmt.Sprintf("linearisation %d: a constructor (%s) is entered or no error is returned", tc.k, first)
				}
			case first != tc.want.Name():
				good, why = false, fmt.Sprintf("linearisation %d: first constructor entered is %q, want %s", tc.k, first, tc.want.Name())
			}
		}
		e.runEntry(ctor, func(fr *lfFrame, st *lfState) {
			if pv, ok := fr.env[ctor.Params[0]].(vPtr); ok {
				st.heap[fmt.Sprintf("%d.Linearisation", pv.Obj)] = vInt{E: linConst(tc.k)}
			}
		})
		if e.budgetHit || n == 0 {
			return false, fmt.Sprintf("linearisation %d: evaluation incomplete", tc.k)
		}
		if !good {
			return false, why
		}
	}
	return true, ""
}
