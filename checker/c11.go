package main

import (
	"go/token"
	"go/types"
	"strings"

	"golang.org/x/tools/go/ssa"
)

func init() { register("C11", checkC11) }

func pathIndex(p CPath) map[ssa.Instruction]int {
	m := map[ssa.Instruction]int{}
	k := 0
	for _, in := range p.Instrs() {
		if _, seen := m[in]; !seen {
			m[in] = k
		}
		k++
	}
	return m
}

// leavesOf expands pure arithmetic/bit operations and conversions to their
// leaf operands (loads, calls, parameters, constants).
func leavesOf(v ssa.Value) []ssa.Value {
	var out []ssa.Value
	seen := map[ssa.Value]bool{}
	var walk func(ssa.Value)
	walk = func(x ssa.Value) {
		if seen[x] {
			return
		}
		seen[x] = true
		switch y := x.(type) {
		case *ssa.BinOp:
			walk(y.X)
			walk(y.Y)
		case *ssa.Convert:
			walk(y.X)
		case *ssa.ChangeType:
			walk(y.X)
		case *ssa.UnOp:
			if y.Op == token.MUL {
				out = append(out, x)
			} else {
				walk(y.X)
			}
		case *ssa.Phi:
			for _, e := range y.Edges {
				walk(e)
			}
		default:
			out = append(out, x)
		}
	}
	walk(v)
	return out
}

// decodedLoad: v is a load of a field (selector suffix sel) of a registered
// connection layer, executed after the decode call on this path.
func decodedLoad(p CPath, v ssa.Value, sel string, idx map[ssa.Instruction]int, decodeAt int) bool {
	ld, ok := v.(*ssa.UnOp)
	if !ok || ld.Op != token.MUL {
		return false
	}
	if !strings.HasSuffix(p.AP(ld.X).SelString(), sel) {
		return false
	}
	at, ok := idx[ld]
	return ok && at > decodeAt
}

// passedEquality: on path p some If compares (==/!=) a value whose leaves
// include a post-decode load of layerSel with a value for which other()
// holds on at least one leaf and on no leaf is a post-decode load of the same
// layer; the arm taken is the one where the two are equal.
func passedEquality(p CPath, idx map[ssa.Instruction]int, decodeAt int, layerSel string, other func(leaf ssa.Value) bool) (bool, *ssa.If) {
	for _, rel := range p.relations() {
		if rel.Op != token.EQL {
			continue
		}
		for _, pair := range [][2]ssa.Value{{rel.X, rel.Y}, {rel.Y, rel.X}} {
			lhsOK := false
			for _, l := range pathLeaves(p, pair[0]) {
				if decodedLoad(p, l, layerSel, idx, decodeAt) {
					lhsOK = true
				}
			}
			if !lhsOK {
				continue
			}
			rhsOK := false
			for _, l := range pathLeaves(p, pair[1]) {
				if other(l) {
					rhsOK = true
				}
			}
			if rhsOK {
				return true, rel.If
			}
		}
	}
	return false, nil
}

// pathLeaves is leavesOf with every value resolved on the path first (phis,
// parameters and results of spliced helpers).
func pathLeaves(p CPath, v ssa.Value) []ssa.Value {
	var out []ssa.Value
	seen := map[ssa.Value]bool{}
	var walk func(ssa.Value)
	walk = func(x ssa.Value) {
		x = p.Resolve(x)
		if seen[x] {
			return
		}
		seen[x] = true
		switch y := x.(type) {
		case *ssa.BinOp:
			walk(y.X)
			walk(y.Y)
		case *ssa.Convert:
			walk(y.X)
		case *ssa.ChangeType:
			walk(y.X)
		case *ssa.UnOp:
			if y.Op == token.MUL {
				out = append(out, x)
			} else {
				walk(y.X)
			}
		default:
			out = append(out, x)
		}
	}
	walk(v)
	return out
}

func decodeIndex(p CPath, idx map[ssa.Instruction]int) int {
	at := -1
	for _, in := range p.Instrs() {
		if isDecodeCall(in) {
			at = idx[in]
		}
	}
	return at
}

func checkC11(c *Ctx, r *Report) {
	r.Explain = "Must-check on the two command send closures: every CFG path on which the decoded completion code is classified (and hence may be returned to the caller) has taken the equal arm of a comparison between the decoded message layer's network function and a value derived from the request's Operation(), and likewise for the command number; the request side must not be read from the message layer after the decoder has overwritten it. Decides presence and placement of the comparisons on all paths, not the arithmetic relating request and response NetFn."
	r.NotDecided = []string{"matching among replies to the same command (the library always uses message sequence number 1)", "that the response NetFn is computed as request NetFn + 1 (only provenance of the compared value is checked)"}
	r.Trusted = []string{"go/types, go/ssa (x/tools v0.29.0)", "gopacket LayersDecoder fills the registered message layer from the reply"}
	checkReplyMatchesRequest(c, r)
	// the comparisons read the connection's message layer, which also held the request: they say
	// something about the reply only if the decoder overwrote network function and command with
	// the reply's on every success path (rules shared with C17 and C07)
	checkDecoderAssignment(c, r, "message-decoder-overwrites", 1, func(n *types.Named) bool { return n.Obj().Name() == "Message" })
	r.Rule("message-decoder-layout", "the message decoder takes network function, command and completion code from the specified bytes of the reply", 3)
	{
		var specs []layerSpec
		for _, sp := range responseSpecs {
			if sp.Type == "Message" {
				specs = append(specs, sp)
			}
		}
		compareSpec(c, r, specs, "field", map[string][]string{})
	}

	// one write followed by one read per attempt
	checkOneWriteOneRead(c, r)

	// a command whose retries were given up returns an error: what the layers last held — possibly
	// a reply that was rejected as belonging to another command — is never handed to the caller
	// (rule shared with C04, C10, C13)
	checkRetryFailureReturned(c, r)

	// a reply that does not match is discarded and the command re-sent — it does not end the
	// command with the matching reply still on its way (which would become the next command's
	// stray, and so on): the classification of every exit of the send operations (shared with
	// C10, C13)
	checkClosureExits(c, r)
}

// checkReplyMatchesRequest: rule shared by C11 (a reply to another command is not taken for
// this command's) and C10 (retrying ends only with a valid response to the caller's command).
func checkReplyMatchesRequest(c *Ctx, r *Report) {
	n := 0
	for _, s := range c.SendClosures() {
		if !s.Command {
			continue
		}
		n++
		fname := c.FnName(s.Fn)
		r.Fn(fname)
		if hasLoop(s.Fn) {
			r.Rule("reply-matches-request", "", 2)
			r.Unk(fname+"|loop", s.Fn.Pos(), "loop in closure")
			continue
		}
		reqDerived := func(p CPath, idx map[ssa.Instruction]int, decodeAt int) func(ssa.Value) bool {
			return func(l ssa.Value) bool {
				ld, ok := l.(*ssa.UnOp)
				if !ok || ld.Op != token.MUL {
					return false
				}
				a := p.AP(ld.X)
				// field of the value returned by c.Operation()
				if call, ok := a.Root.(*ssa.Call); ok && call.Call.IsInvoke() && call.Call.Method.Name() == "Operation" {
					return true
				}
				// a copy of the request operation taken from the message layer before the decode
				if strings.Contains(a.SelString(), fMsg) {
					at, ok := idx[ld]
					return ok && at < decodeAt
				}
				// a local captured from the enclosing function that was derived from Operation()
				if fv, ok := ld.X.(*ssa.FreeVar); ok {
					if al, ok := freeVarBinding(fv).(*ssa.Alloc); ok {
						for _, ref := range *al.Referrers() {
							if st, ok := ref.(*ssa.Store); ok {
								for _, l2 := range leavesOf(st.Val) {
									if l2ld, ok := l2.(*ssa.UnOp); ok && l2ld.Op == token.MUL {
										if call, ok := apOf(l2ld.X).Root.(*ssa.Call); ok && call.Call.IsInvoke() && call.Call.Method.Name() == "Operation" {
											return true
										}
									}
								}
							}
						}
					}
				}
				return false
			}
		}
		enumPaths(s.Fn, 1, 8192, func(p CPath) {
			ds := pathDecisions(p)
			if !hasDecision(ds, "temporary", true) && !hasDecision(ds, "temporary", false) {
				return
			}
			idx := pathIndex(p)
			decodeAt := decodeIndex(p, idx)
			label := exitLabel(p)
			for _, fld := range []string{"Function", "Command"} {
				r.Rule("reply-matches-request", "a reply's completion code is used only if the decoded message's NetFn and command were compared equal with the request's", 4)
				ok, _ := passedEquality(p, idx, decodeAt, fMsg+"."+fld, reqDerived(p, idx, decodeAt))
				r.Check(ok, fname+"|"+fld+"|path "+label, s.Send.Pos(), "decoded "+fld+" compared with the request's on this path", "the reply's "+fld+" is never compared with the request's before its completion code is used: a reply to another command is taken as this command's response")
			}
		})
	}
	if n < 2 {
		r.Rule("reply-matches-request", "", 4)
		r.Lost("two command send closures")
	}
}

func checkOneWriteOneRead(c *Ctx, r *Report) {
	r.Rule("one-write-one-read", "transport.Send performs exactly one socket write followed by exactly one socket read on its success path", 1)
	if send := c.transportSend(); send == nil {
		r.Lost("transport.Send")
	} else {
		r.Fn(c.FnName(send))
		ok := true
		why := ""
		failOK, failSeen := true, 0
		enumPaths(send, 2, 4096, func(p CPath) {
			if c.errOutcome(send, p) != 0 {
				return
			}
			// a success path never follows the failure arm of a socket call's error test: a
			// read that timed out is a transport failure, not an empty reply
			for _, t := range p.Ifs() {
				bo, isBin := t.If.Cond.(*ssa.BinOp)
				if !isBin || (bo.Op != token.NEQ && bo.Op != token.EQL) {
					continue
				}
				v := bo.X
				if isNilConst(v) {
					v = bo.Y
				} else if !isNilConst(bo.Y) {
					continue
				}
				ex, isEx := v.(*ssa.Extract)
				if !isEx {
					continue
				}
				call, isCall := ex.Tuple.(*ssa.Call)
				if !isCall || !(isCallTo(call, sockReads...) || isCallTo(call, sockWrites...)) {
					continue
				}
				failSeen++
				if failed := t.Arm == (bo.Op == token.NEQ); failed {
					failOK = false
				}
			}
			w, rd := 0, 0
			wAt, rAt := -1, -1
			for k, in := range p.Instrs() {
				if isCallTo(in, sockWrites...) {
					w++
					wAt = k
				}
				if isCallTo(in, sockReads...) {
					rd++
					rAt = k
				}
			}
			if w != 1 || rd != 1 || wAt > rAt {
				ok = false
				why = "success path with writes/reads != 1/1 or read before write"
			}
		})
		r.Check(ok, c.FnName(send)+"|write-then-read", send.Pos(), "one write then one read", why)
		if failSeen > 0 {
			r.Check(failOK, c.FnName(send)+"|socket failure is an error", send.Pos(), "no success path follows the failure arm of a socket call's error test", "a path on which the socket write or read failed (a timeout, say) returns a nil error: the caller takes whatever the buffer holds — or nothing — for a reply, and a lost reply is no longer a transport failure")
		}
		// ... and Send is the only place that touches the socket: a read anywhere else (a drain,
		// a peek) lands in the receive buffer the accepted reply's payload still points into, or
		// swallows the reply the next command is waiting for; a write anywhere else is a datagram
		// outside every rule about transmissions
		inSend := map[ssa.Instruction]bool{}
		viewInstrs(send, func(in ssa.Instruction) { inSend[in] = true })
		for _, fn := range c.LibFuncs() {
			fn := fn
			rawInstrs(fn, false, func(in ssa.Instruction) {
				if (isCallTo(in, sockReads...) || isCallTo(in, sockWrites...)) && !inSend[in] {
					r.Bad(c.FnName(fn)+"|socket I/O outside Send", in.Pos(), "the socket is read or written outside transport.Send: datagrams are consumed or produced behind the back of the one-request-one-reply exchange (a reply already accepted can be overwritten in the shared receive buffer before its body is decoded)")
				}
			})
		}
	}
}
