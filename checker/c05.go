package main

import (
	"bytes"
	"fmt"
	"go/ast"
	"go/token"
	"go/types"
	"os"
	"os/exec"
	"path/filepath"
	"runtime"
	"sort"
	"strconv"
	"strings"
	"sync"

	"golang.org/x/tools/go/ssa"
)

func init() { register("C05", checkC05) }

// decodeEntryPoints lists the functions analysed as entry points with
// arbitrary byte-slice arguments: every DecodeFromBytes / Deserialise / Decode
// method of the layer packages that takes a []byte, and the cipher-suite
// record parser.
func (c *Ctx) decodeEntryPoints() []*ssa.Function {
	var out []*ssa.Function
	for _, fn := range c.LibFuncs() {
		if fn.Parent() != nil || fn.Pkg == nil {
			continue
		}
		path := fn.Pkg.Pkg.Path()
		takesBytes := false
		for _, p := range fn.Params {
			if sl, ok := p.Type().Underlying().(*types.Slice); ok {
				if b, ok := sl.Elem().Underlying().(*types.Basic); ok && b.Kind() == types.Uint8 {
					takesBytes = true
				}
			}
		}
		if !takesBytes {
			continue
		}
		switch {
		case (path == modPath+"/pkg/ipmi" || path == modPath+"/pkg/dcmi") && fn.Signature.Recv() != nil &&
			(fn.Name() == "DecodeFromBytes" || fn.Name() == "Deserialise" || fn.Name() == "Decode"):
			// the ID-string decoders are analysed in the context of their caller (the count comes from 5 bits of the type/length byte)
			if n := recvNamed(fn); n != nil && n.Obj().Name() == "StringDecoderFunc" {
				continue
			}
			out = append(out, fn)
		case path == modPath && fn.Signature.Recv() == nil && fn.Signature.Results().Len() == 2:
			// parseCipherSuiteRecordData-like: ([]byte) ([]T, error)
			if len(fn.Params) == 1 {
				out = append(out, fn)
			}
		}
	}
	sort.Slice(out, func(i, j int) bool { return c.FnName(out[i]) < c.FnName(out[j]) })
	return out
}

// driverEntryPoints: functions of the root package and pkg/dcmi that handle
// reply-derived data after decoding.
func (c *Ctx) driverEntryPoints() []*ssa.Function {
	var out []*ssa.Function
	seen := map[*ssa.Function]bool{}
	add := func(f *ssa.Function) {
		if f != nil && f.Blocks != nil && !seen[f] {
			seen[f] = true
			out = append(out, f)
		}
	}
	for _, sc := range c.SendClosures() {
		add(sc.Fn)
		add(sc.Parent)
	}
	for _, f := range c.sendCommandImpls() {
		add(f)
	}
	if m := c.findCtor(); m != nil {
		add(m.Fn)
	}
	for _, f := range c.handshakeHelpers() {
		add(f)
	}
	if w, _ := c.findSDRWalk(); w != nil {
		add(w)
	}
	for _, fn := range c.LibFuncs() {
		if fn.Pkg == nil || fn.Parent() != nil {
			continue
		}
		p := fn.Pkg.Pkg.Path()
		if (p == modPath || p == modPath+"/pkg/dcmi") && len(ctxParamsOf(fn)) > 0 && len(naturalLoops(fn)) > 0 {
			add(fn)
		}
	}
	sort.Slice(out, func(i, j int) bool { return c.FnName(out[i]) < c.FnName(out[j]) })
	return out
}

// runLenflow analyses the given entry points and reports every obligation.
func runLenflow(c *Ctx, r *Report, rule string, entries []*ssa.Function, minObl int) *lfEngine {
	depth := 4
	if c.Tier == "thorough" {
		depth = 8
	}
	e := newLenflow(c, depth)
	// entry points are independent: analyse them on all cores, each with its own
	// engine state, then merge the obligations (a site is violated if any entry/path violates it)
	type result struct {
		fn  *ssa.Function
		eng *lfEngine
		hit bool
	}
	done := map[*ssa.Function]bool{}
	queue := append([]*ssa.Function{}, entries...)
	for len(queue) > 0 {
		var batch []*ssa.Function
		for _, fn := range queue {
			if !done[fn] {
				done[fn] = true
				batch = append(batch, fn)
			}
		}
		queue = nil
		results := make([]result, len(batch))
		sem := make(chan struct{}, runtime.NumCPU())
		var wg sync.WaitGroup
		for i, fn := range batch {
			wg.Add(1)
			sem <- struct{}{}
			go func(i int, fn *ssa.Function) {
				defer wg.Done()
				defer func() { <-sem }()
				w := newLenflowShared(c, depth, e)
				w.runEntry(fn, nil)
				results[i] = result{fn, w, w.budgetHit}
			}(i, fn)
		}
		wg.Wait()
		for _, res := range results {
			if res.hit {
				r.Rule(rule, "", minObl)
				r.Unk(c.FnName(res.fn)+"|budget", res.fn.Pos(), "analysis budget exhausted: too many paths")
			}
			e.merge(res.eng)
			queue = append(queue, res.eng.pending...)
		}
	}
	r.Rule(rule, "every index, slice (against len, not cap), make, division and contract precondition reachable from the entry points is entailed by the constraints of every path reaching it", minObl)
	for _, key := range e.order {
		o := e.obls[key]
		construct := strings.SplitN(o.Key, "|", 3)
		ckey := construct[0] + "|" + construct[2]
		switch {
		case o.Failed > 0:
			r.Bad(ckey, o.Pos, o.Why)
		case o.Unknown > 0:
			r.Unk(ckey, o.Pos, o.Why)
		default:
			r.OK(ckey, o.Pos, fmt.Sprintf("entailed on %d path(s)", o.Proved))
		}
	}
	for f := range e.analysed {
		r.Fn(c.FnName(f))
	}
	return e
}

func checkC05(c *Ctx, r *Report) {
	r.Explain = "Engine E1 (lenflow): a path-sensitive abstract interpretation of every layer decoder (all DecodeFromBytes/Deserialise/Decode methods of pkg/ipmi and pkg/dcmi, the ID-string decoders in the context of their caller, the cipher-suite record parser) and of the driver functions that touch reply-derived data, with arbitrary input bytes and lengths. Integers are linear forms over symbols, slices are lengths, branch conditions refine a constraint store; each index, slice expression, make, division and library-contract precondition must be entailed on every path (Fourier–Motzkin with integer tightening, congruences by substitution). Slices are checked against len, not cap, because replies are windows on a reused 512-byte buffer. Loops are summarised by inferred invariants and every loop must match a termination template. Literal-nil dereferences, explicit panics and unguarded type assertions are obligations too. Exhaustive over the analysed code's paths (bounded by an inlining depth and a step budget that fail loudly)."
	r.NotDecided = []string{"panics outside these classes: nil dereference of pointers whose nil-ness is not syntactically visible, out-of-memory, stack overflow", "hangs inside third-party code (gopacket's decode loop terminates because every registered layer consumes input — checked structurally below, not proven for gopacket itself)", "integer overflow of int (64-bit on the quick tier; the thorough tier re-runs with GOARCH=386)"}
	r.Trusted = []string{"go/types, go/ssa (x/tools v0.29.0); the Go spec semantics of the modelled instructions", "encoding/binary.{Uint,PutUint}N need N/8 bytes; cipher.NewCBC* needs len(iv) = block size; CryptBlocks needs len(src) a multiple of the block size and len(dst) ≥ len(src); aes blocks are 16 bytes; hash.Hash.Sum(b) returns len(b)+Size() bytes", "gopacket.LayersDecoder passes each layer's LayerPayload() to the next decoder and has no recover()"}

	entries := c.decodeEntryPoints()
	r.Rule("entry-points", "decoders found by signature", 30)
	for _, f := range entries {
		r.OK(c.FnName(f), f.Pos(), "analysed with arbitrary input")
	}
	all := append([]*ssa.Function{}, entries...)
	all = append(all, c.driverEntryPoints()...)
	e := runLenflow(c, r, "in-bounds", all, 250)

	// termination
	r.Rule("loops-terminate", "every loop in the analysed functions matches a termination template (counting loop, shrinking slice, or context-bounded exchange)", 12)
	e.resolveLoops()
	var lkeys []string
	for k := range e.loopsSeen {
		lkeys = append(lkeys, k)
	}
	sort.Strings(lkeys)
	for _, k := range lkeys {
		v := e.loopsSeen[k]
		if strings.HasPrefix(v, "ok: ") {
			r.OK(k, e.loopPos[k], strings.TrimPrefix(v, "ok: "))
		} else {
			r.Unk(k, e.loopPos[k], v)
		}
	}

	checkFieldFacts(c, r)
	checkLayerConsumption(c, r)
	// the reply-driven enumeration run during session establishment is bounded by its own
	// counter, not only by the caller's context (shared with C16): a BMC that always answers
	// with full chunks cannot keep discovery going
	checkNilHashGuarded(c, r)
	checkChunkLoop(c, r)
	if c.Tier == "thorough" {
		bceCrossCheck(c, r, e)
	}
}

// checkLenflowFor runs E1 on the decoders of the named layers only (used by
// other properties for their bounds sub-obligations).
func checkLenflowFor(c *Ctx, r *Report, rule string, layers []string) {
	var entries []*ssa.Function
	for _, fn := range c.decodeEntryPoints() {
		n := recvNamed(fn)
		if n == nil {
			continue
		}
		for _, l := range layers {
			if n.Obj().Name() == l || strings.HasPrefix(n.Obj().Name(), l) {
				entries = append(entries, fn)
			}
		}
	}
	if len(entries) == 0 {
		r.Rule(rule, "", 1)
		r.Lost("decoders of " + strings.Join(layers, ", "))
		return
	}
	runLenflow(c, r, rule, entries, len(entries))
}

// checkFieldFacts verifies the two facts about fields that E1 assumes.
func checkFieldFacts(c *Ctx, r *Report) {
	r.Rule("field-facts", "facts E1 relies on: every value stored into ipmi.AES128CBC.cipher comes from crypto/aes.NewCipher (block size 16); every truncatedHash has length ≤ the digest size of its hash", 3)
	aes := c.Named("pkg/ipmi", "AES128CBC")
	if aes == nil {
		r.Lost("ipmi.AES128CBC")
	} else {
		n := 0
		for _, fn := range c.LibFuncs() {
			rawInstrs(fn, false, func(in ssa.Instruction) {
				st, ok := in.(*ssa.Store)
				if !ok {
					return
				}
				fa, ok := st.Addr.(*ssa.FieldAddr)
				if !ok {
					return
				}
				f := structField(fa.X.Type(), fa.Field)
				bt := fa.X.Type()
				if p, ok := bt.Underlying().(*types.Pointer); ok {
					bt = p.Elem()
				}
				nt, ok := bt.(*types.Named)
				if !ok || nt.Obj() != aes.Obj() || f == nil || f.Name() != fAesCipher {
					return
				}
				n++
				good := false
				if ex, ok := st.Val.(*ssa.Extract); ok && ex.Index == 0 {
					if call, ok := ex.Tuple.(*ssa.Call); ok && calleeName(&call.Call) == "crypto/aes.NewCipher" {
						good = true
					}
				}
				r.Check(good, c.FnName(fn)+"|store AES128CBC.cipher", st.Pos(), "from crypto/aes.NewCipher", "the AES layer's block cipher is not the result of crypto/aes.NewCipher: its block size is unknown")
			})
		}
		if n == 0 {
			r.Bad("AES128CBC.cipher|writers", token.NoPos, "no store to the cipher field found")
		}
	}
	// truncatedHash literals
	th := c.truncatedHashType()
	if th == nil {
		r.Lost("truncatedHash")
		return
	}
	sizes := map[string]int64{"crypto/sha1.New": 20, "crypto/md5.New": 16, "crypto/sha256.New": 32}
	for _, fn := range c.LibFuncs() {
		rawInstrs(fn, false, func(in ssa.Instruction) {
			al, ok := in.(*ssa.Alloc)
			if !ok {
				return
			}
			nt, ok := al.Type().(*types.Pointer).Elem().(*types.Named)
			if !ok || nt.Obj() != th.Obj() {
				return
			}
			f, _, _ := complitFieldsAlloc(al)
			if len(f) == 0 {
				return
			}
			lenV, hashV := f[fTruncLen], stripConv(f["Hash"])
			good := false
			why := "cannot relate the truncation length to the digest size"
			if k, isK := constInt(lenV); isK {
				if call, ok := hashV.(*ssa.Call); ok && calleeName(&call.Call) == "crypto/hmac.New" {
					if hf, ok := stripConv(call.Call.Args[0]).(*ssa.Function); ok {
						if sz, ok := sizes[hf.String()]; ok {
							good = k >= 0 && k <= sz
							why = fmt.Sprintf("truncation length %d exceeds the %d-byte digest of %s", k, sz, hf.String())
						}
					}
				}
			} else if lenV != nil {
				// length and hash both come from the same parameter object (icvLength / hashGen): pairs are checked against the table
				authFn, _, _ := c.algorithmCtors()
				lenField := "icvLength"
				if authFn != nil {
					_, lenField = authParamFields(authFn)
				}
				if ld, ok := lenV.(*ssa.UnOp); ok && strings.HasSuffix(apOf(ld.X).SelString(), lenField) {
					good = c.icvPairsWithinDigest(sizes)
					why = "an (hash, icvLength) pair in the authentication algorithm table has icvLength larger than the digest"
				}
			}
			r.Check(good, c.FnName(fn)+"|truncatedHash literal", al.Pos(), "length ≤ digest size", why)
		})
	}
}

// icvPairsWithinDigest checks every (hash constructor, ICV length) pair the
// authentication parameter constructor can return (read per path, so a
// literal and field assignments are the same thing).
func (c *Ctx) icvPairsWithinDigest(sizes map[string]int64) bool {
	pairs, ok := c.authPairs()
	if !ok {
		return false
	}
	for _, pr := range pairs {
		sz, known := sizes[pr[0]]
		k, err := strconv.ParseInt(pr[1], 10, 64)
		if !known || err != nil || k < 0 || k > sz {
			return false
		}
	}
	return true
}

// checkLayerConsumption: gopacket's decode loop terminates because each layer
// hands a strictly shorter payload to the next one, except the zero-length
// session selector which never selects itself.
func checkLayerConsumption(c *Ctx, r *Report) {
	r.Rule("layers-consume-input", "every decoder on the receive path sets its payload to a strict sub-slice of its input (so gopacket's decode loop makes progress); the zero-length selector layer never names itself as the next layer", 5)
	for _, tn := range []string{"V2Session", "V1Session", "AES128CBC", "Message"} {
		fn := c.Method("pkg/ipmi", tn, "DecodeFromBytes")
		if fn == nil {
			r.Lost("ipmi." + tn + ".DecodeFromBytes")
			continue
		}
		// asked of engine E1/E2: in every state that stores the layer's payload, the value is a
		// window of the input that is shorter than the input — whichever way the decoder walks
		// through it (fixed offsets, a cursor re-sliced as it goes, staged helpers)
		ok := true
		n := 0
		e := newLenflow(c, 6)
		e.bits = true
		e.elemLoads = map[Sym]lfElemRef{}
		e.onHeapStore = func(st *lfState, x *ssa.Store, p vPtr, sv lfVal) {
			if p.Obj != e.recvObj || !strings.HasSuffix(p.Path, ".Payload") {
				return
			}
			n++
			sl, isSl := sv.(vSlice)
			if !isSl || sl.Org == nil || sl.Org.Name != "d" || e.dLen == nil {
				ok = false
				return
			}
			// len(payload) ≤ len(data) − 1
			if !entails(st.cons, leq(sl.Len, e.dLen.addConst(-1))) {
				ok = false
			}
		}
		e.runEntry(fn, nil)
		if e.budgetHit {
			ok = false
		}
		r.Check(ok && n > 0, "ipmi."+tn+".DecodeFromBytes|payload is a strict sub-slice", fn.Pos(), "payload starts after at least one consumed byte", "the layer's payload is not a strict sub-slice of its input: gopacket's decode loop may not make progress")
	}
	// selector
	sel := c.Method("pkg/ipmi", "SessionSelector", "NextLayerType")
	if sel == nil {
		r.Lost("ipmi.SessionSelector.NextLayerType")
		return
	}
	ok := true
	for _, ret := range returnsOf(sel) {
		for _, v := range possibleValues(ret.Results[0]) {
			ld, isLd := v.(*ssa.UnOp)
			if !isLd {
				ok = false
				continue
			}
			g, isG := ld.X.(*ssa.Global)
			if !isG || g.Name() == "LayerTypeSessionSelector" {
				ok = false
			}
		}
	}
	r.Check(ok, "ipmi.SessionSelector.NextLayerType|never itself", sel.Pos(), "next layer is a session wrapper", "the zero-length selector layer can name itself as the next layer (endless decode loop)")
}

// bceCrossCheck (thorough tier): the Go compiler's bounds-check-elimination
// pass is an independent prover. Every bounds check it could NOT eliminate
// inside a function E1 analysed must correspond to an E1 obligation on the
// same source line; a compiler-kept check without an E1 obligation would mean
// E1 silently skipped an index or slice expression. (The reverse — E1
// obligations at sites the compiler proved — is expected and harmless: E1
// checks against len, the compiler against cap.) The compiler only compiles
// the packages; nothing is run.
func bceCrossCheck(c *Ctx, r *Report, e *lfEngine) {
	r.Rule("bce-cross-check", "every bounds check the compiler keeps (ssa/check_bce) inside an analysed function has an E1 obligation on the same line", 40)
	cmd := exec.Command("go", "build", "-gcflags=-d=ssa/check_bce/debug=1", "./...")
	cmd.Dir = c.Repo
	cmd.Env = append(os.Environ(), "GOFLAGS=-mod=mod", "GOPROXY=off", "GOSUMDB=off", "GOWORK=off", "GOTOOLCHAIN=local")
	if c.Arch != "" {
		cmd.Env = append(cmd.Env, "GOARCH="+c.Arch)
	}
	out, err := cmd.CombinedOutput()
	if err != nil && !bytes.Contains(out, []byte("Found Is")) {
		r.Unk("go build -d=ssa/check_bce", token.NoPos, "compiler cross-check could not run: "+err.Error())
		return
	}
	// lines with E1 obligations
	have := map[string]bool{}
	for _, key := range e.order {
		o := e.obls[key]
		p := c.Pos(o.Pos)
		have[p] = true
	}
	// line ranges of analysed functions
	type span struct {
		file     string
		from, to int
		name     string
	}
	var spans []span
	for fn := range e.analysed {
		if fn.Syntax() == nil {
			continue
		}
		a := c.Fset.Position(fn.Syntax().Pos())
		b := c.Fset.Position(fn.Syntax().End())
		rel, _ := filepath.Rel(c.Repo, a.Filename)
		spans = append(spans, span{rel, a.Line, b.Line, c.FnName(fn)})
	}
	n, miss, inlined := 0, 0, 0
	seen := map[string]bool{}
	for _, line := range strings.Split(string(out), "\n") {
		if !strings.Contains(line, "Found IsInBounds") && !strings.Contains(line, "Found IsSliceInBounds") {
			continue
		}
		parts := strings.SplitN(line, ":", 4)
		if len(parts) < 3 {
			continue
		}
		file := strings.TrimPrefix(parts[0], "./")
		ln, _ := strconv.Atoi(parts[1])
		key := fmt.Sprintf("%s:%d", file, ln)
		if seen[key] {
			continue
		}
		seen[key] = true
		for _, sp := range spans {
			if sp.file == file && ln >= sp.from && ln <= sp.to {
				if !c.lineHasIndexing(file, ln) {
					// a check inlined from code outside the module (e.g. bytes.Buffer.Bytes): not this module's expression
					inlined++
					break
				}
				n++
				if have[key] {
					r.OK(sp.name+"|"+key, token.NoPos, "compiler-kept bounds check has an E1 obligation")
				} else {
					miss++
					r.Unk(sp.name+"|"+key, token.NoPos, "the compiler keeps a bounds check here but E1 recorded no obligation on this line")
				}
				break
			}
		}
	}
	r.Extra["bce_sites_in_analysed_functions"] = n
	r.Extra["bce_sites_without_obligation"] = miss
	r.Extra["bce_sites_from_inlined_foreign_code"] = inlined
}

// lineHasIndexing: does the module's source have an index, slice or range
// expression on this line?
func (c *Ctx) lineHasIndexing(relFile string, line int) bool {
	found := false
	for _, p := range c.ModulePackages() {
		for _, f := range p.Syntax {
			pos := c.Fset.Position(f.Pos())
			rel, _ := filepath.Rel(c.Repo, pos.Filename)
			if rel != relFile {
				continue
			}
			ast.Inspect(f, func(n ast.Node) bool {
				if n == nil {
					return false
				}
				switch n.(type) {
				case *ast.IndexExpr, *ast.SliceExpr, *ast.RangeStmt:
					a, b := c.Fset.Position(n.Pos()).Line, c.Fset.Position(n.End()).Line
					if a <= line && line <= b {
						found = true
					}
				}
				return true
			})
		}
	}
	return found
}

// checkNilHashGuarded: an exported layer type with a hash.Hash field may be used with that
// field nil (the session-less connections never set the session wrapper's integrity
// algorithm, and a forged reply can still carry the authenticated flag). In the layer's
// decoder and serialiser every method call on a hash read from such a field happens only on
// paths that found it non-nil — a nil interface method call is a panic like an index out of
// range.
func checkNilHashGuarded(c *Ctx, r *Report) {
	r.Rule("nil-hash-guarded", "in the decoders and serialisers of layer types that carry a hash.Hash field, every method call on that hash is made only on paths that found it non-nil", 2)
	for _, pkg := range c.ModulePackages() {
		names := pkg.Types.Scope().Names()
		sort.Strings(names)
		for _, nm := range names {
			tn, ok := pkg.Types.Scope().Lookup(nm).(*types.TypeName)
			if !ok || !tn.Exported() {
				continue
			}
			nt, ok := tn.Type().(*types.Named)
			if !ok {
				continue
			}
			st, ok := nt.Underlying().(*types.Struct)
			if !ok {
				continue
			}
			hashField := ""
			for i := 0; i < st.NumFields(); i++ {
				if isHashHash(st.Field(i).Type()) && !st.Field(i).Embedded() {
					hashField = st.Field(i).Name()
				}
			}
			if hashField == "" {
				continue
			}
			for _, mname := range []string{"DecodeFromBytes", "SerializeTo"} {
				fn := c.MethodOf(nt, mname)
				if fn == nil || fn.Blocks == nil || len(fn.Params) == 0 {
					continue
				}
				name := c.FnName(fn)
				okG, nG := true, 0
				posG := fn.Pos()
				complete := enumPaths(fn, 2, 1000000, func(p CPath) {
					for _, oc := range p.OccsPos() {
						call, ok := oc.In.(*ssa.Call)
						if !ok || !call.Call.IsInvoke() || !isHashHash(call.Call.Value.Type()) {
							continue
						}
						v := p.Upto(oc.Seg).ResolveIn(oc.Ctx, call.Call.Value)
						ld, isLd := v.(*ssa.UnOp)
						if !isLd || ld.Op != token.MUL {
							continue
						}
						ap := p.AP(ld.X)
						if ap.Root != ssa.Value(fn.Params[0]) || ap.SelString() != hashField {
							continue
						}
						nG++
						if p.nilFound(v) != 1 {
							okG, posG = false, call.Pos()
						}
					}
				})
				if !complete {
					r.Unk(name+"|nil hash", fn.Pos(), "too many paths")
					continue
				}
				if nG == 0 {
					continue
				}
				r.Check(okG, name+"|nil "+hashField, posG, "every use of the hash is behind a non-nil test", "a method of "+hashField+" is called on a path that has not found it non-nil: with the field unset (session-less connection) a packet that claims to be authenticated makes this a nil-pointer panic")
			}
		}
	}
}
