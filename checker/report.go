package main

import (
	"bufio"
	"crypto/sha1"
	"encoding/hex"
	"encoding/json"
	"fmt"
	"go/token"
	"os"
	"path/filepath"
	"sort"
	"strings"
	"time"
)

type Verdict string

const (
	Discharged Verdict = "discharged"
	Violated   Verdict = "violated"
	Undecided  Verdict = "undecided"
)

// Obligation is one question the analysis asked about one construct of the
// program, and its answer.
type Obligation struct {
	Rule    string  `json:"rule"`
	Key     string  `json:"key"` // rule|function|normalised construct — never a line number
	Pos     string  `json:"pos"`
	Verdict Verdict `json:"verdict"`
	Reason  string  `json:"reason,omitempty"`
}

type RuleInfo struct {
	Name      string `json:"name"`
	Doc       string `json:"doc"`
	Instances int    `json:"instances"`
	Minimum   int    `json:"minimum"`
}

// Report accumulates what a property check covered.
type Report struct {
	c          *Ctx
	Prop       string
	Obls       []Obligation
	rules      map[string]*RuleInfo
	ruleOrder  []string
	Functions  map[string]bool
	NotDecided []string
	Trusted    []string
	Explain    string
	Extra      map[string]any
	curRule    string
	// while another property's whole rule set is being run as part of this one (shareWhole):
	// rules this report had declared before are not evaluated a second time
	skipRules map[string]bool
}

// shareWhole runs another property's complete rule set under this report — for properties
// whose statement contains the other's as a clause ("every command sent on the session passes
// the BMC's integrity check" contains "every packet sent in a session is authenticated,
// encrypted and well-formed"). The other check's explanation and lists are not taken over.
func (r *Report) shareWhole(c *Ctx, other func(*Ctx, *Report)) {
	ex, nd, tr := r.Explain, r.NotDecided, r.Trusted
	extra := r.Extra
	r.Extra = map[string]any{}
	outer := r.skipRules
	r.skipRules = map[string]bool{}
	for k := range outer {
		r.skipRules[k] = true
	}
	for k := range r.rules {
		r.skipRules[k] = true
	}
	other(c, r)
	r.skipRules = outer
	r.Explain, r.NotDecided, r.Trusted, r.Extra = ex, nd, tr, extra
}

func newReport(c *Ctx, prop string) *Report {
	return &Report{c: c, Prop: prop, rules: map[string]*RuleInfo{}, Functions: map[string]bool{}, Extra: map[string]any{}}
}

// Rule declares a rule, its documentation and the minimum number of instances
// (obligations) that must be produced for it on any tree where the property's
// anchors exist. Falling below the minimum is reported as a lost anchor.
func (r *Report) Rule(name, doc string, min int) {
	full := r.Prop + "." + name
	if _, ok := r.rules[full]; !ok {
		r.rules[full] = &RuleInfo{Name: full, Doc: doc, Minimum: min}
		r.ruleOrder = append(r.ruleOrder, full)
	}
	r.curRule = full
}

func (r *Report) add(v Verdict, construct string, pos token.Pos, reason string) {
	if r.curRule == "" {
		panic("obligation without rule")
	}
	if r.skipRules[r.curRule] {
		return
	}
	ri := r.rules[r.curRule]
	ri.Instances++
	p := "-"
	if r.c != nil {
		p = r.c.Pos(pos)
	}
	r.Obls = append(r.Obls, Obligation{Rule: r.curRule, Key: r.curRule + "|" + construct, Pos: p, Verdict: v, Reason: reason})
}

func (r *Report) OK(construct string, pos token.Pos, reason string) {
	r.add(Discharged, construct, pos, reason)
}
func (r *Report) Bad(construct string, pos token.Pos, reason string) {
	r.add(Violated, construct, pos, reason)
}
func (r *Report) Unk(construct string, pos token.Pos, reason string) {
	r.add(Undecided, construct, pos, reason)
}
func (r *Report) Check(ok bool, construct string, pos token.Pos, okReason, badReason string) bool {
	if ok {
		r.OK(construct, pos, okReason)
	} else {
		r.Bad(construct, pos, badReason)
	}
	return ok
}

// Lost reports an anchor that could not be found: the rule cannot be evaluated
// and the check fails loudly (never passes vacuously).
func (r *Report) Lost(what string) {
	r.add(Undecided, "anchor:"+what, token.NoPos, "anchor not found: "+what)
}

func (r *Report) Fn(name string) { r.Functions[name] = true }

type knownFinding struct {
	State    string `json:"state"` // known | fixed
	Property string `json:"property"`
	Key      string `json:"key"`
	What     string `json:"what"`
	Commit   string `json:"commit,omitempty"`
}

func loadKnown(path string) ([]knownFinding, error) {
	f, err := os.Open(path)
	if err != nil {
		if os.IsNotExist(err) {
			return nil, nil
		}
		return nil, err
	}
	defer f.Close()
	var out []knownFinding
	sc := bufio.NewScanner(f)
	sc.Buffer(make([]byte, 1<<20), 1<<20)
	for sc.Scan() {
		line := strings.TrimSpace(sc.Text())
		if line == "" || strings.HasPrefix(line, "#") {
			continue
		}
		var k knownFinding
		if err := json.Unmarshal([]byte(line), &k); err != nil {
			return nil, fmt.Errorf("known findings: %v in %q", err, line)
		}
		out = append(out, k)
	}
	return out, sc.Err()
}

// finish writes evidence, prints KNOWN-FINDING / VIOLATION lines and returns
// the process exit code.
func (r *Report) finish(verifDir, tier string, seed int64, start time.Time, fatal error) int {
	evDir := filepath.Join(verifDir, "evidence")
	os.MkdirAll(filepath.Join(evDir, "replay"), 0o755)
	known, kerr := loadKnown(filepath.Join(verifDir, "known_findings.jsonl"))
	if kerr != nil && fatal == nil {
		fatal = kerr
	}
	knownSet := map[string]knownFinding{}
	for _, k := range known {
		if k.State == "known" && k.Property == r.Prop {
			knownSet[k.Key] = k
		}
	}

	// anti-vacuity: every declared rule must have produced its minimum.
	for _, name := range r.ruleOrder {
		ri := r.rules[name]
		if ri.Instances < ri.Minimum {
			r.Obls = append(r.Obls, Obligation{Rule: name, Key: name + "|anchor-count", Pos: "-", Verdict: Undecided,
				Reason: fmt.Sprintf("rule matched %d constructs, fewer than the %d confirmed by hand on the reference tree: anchors lost, rule would pass vacuously", ri.Instances, ri.Minimum)})
		}
	}

	// … and every rule the check declares on the reference tree must have been reached: a
	// check that returned before declaring one has not decided it.
	if fatal == nil {
		for _, name := range expectedRules[r.Prop] {
			full := r.Prop + "." + name
			if _, has := r.rules[full]; !has {
				if _, has2 := r.rules[name]; has2 {
					continue
				}
				r.Obls = append(r.Obls, Obligation{Rule: full, Key: full + "|rule-not-reached", Pos: "-", Verdict: Undecided,
					Reason: "the check ended without evaluating this rule (it is evaluated on the reference tree): the code has a shape the check does not follow, nothing was decided"})
			}
		}
	}

	var nDis, nVio, nUnd, nKnown int
	type viol struct {
		o Obligation
	}
	var fresh []Obligation
	distinct := map[string]bool{}
	seenKnown := map[string]bool{}
	for _, o := range r.Obls {
		distinct[o.Key] = true
		switch o.Verdict {
		case Discharged:
			nDis++
		case Violated:
			if k, ok := knownSet[o.Key]; ok {
				nKnown++
				if !seenKnown[o.Key] {
					seenKnown[o.Key] = true
					fmt.Printf("KNOWN-FINDING: property=%s %s — %s (%s)\n", r.Prop, o.Key, k.What, o.Pos)
				}
			} else {
				nVio++
				fresh = append(fresh, o)
			}
		case Undecided:
			nUnd++
			fresh = append(fresh, o)
		}
	}

	exit := 0
	var replays []string
	if fatal != nil {
		exit = 1
		p := filepath.Join(evDir, "replay", r.Prop+"-fatal.json")
		writeJSON(p, map[string]any{"property": r.Prop, "fatal": fatal.Error()})
		fmt.Printf("FATAL property=%s %v\n", r.Prop, fatal)
		fmt.Printf("VIOLATION property=%s replay=%s\n", r.Prop, p)
		replays = append(replays, p)
	}
	seenFresh := map[string]bool{}
	for _, o := range fresh {
		if seenFresh[o.Key] {
			continue
		}
		seenFresh[o.Key] = true
		exit = 1
		h := sha1.Sum([]byte(o.Key))
		p := filepath.Join(evDir, "replay", r.Prop+"-"+hex.EncodeToString(h[:6])+".json")
		writeJSON(p, map[string]any{"property": r.Prop, "obligation": o, "tier": tier, "repo": r.c.Repo})
		fmt.Printf("%s: [%s] %s: %s — %s\n", o.Pos, o.Verdict, o.Rule, strings.TrimPrefix(o.Key, o.Rule+"|"), o.Reason)
		fmt.Printf("VIOLATION property=%s replay=%s\n", r.Prop, p)
		replays = append(replays, p)
	}

	// samples: a spread of actual obligations (first of each rule, then violations)
	var samples []Obligation
	perRule := map[string]int{}
	for _, o := range r.Obls {
		if o.Verdict != Discharged || perRule[o.Rule] < 2 {
			if len(samples) < 60 {
				samples = append(samples, o)
			}
			perRule[o.Rule]++
		}
	}
	var rules []RuleInfo
	for _, n := range r.ruleOrder {
		rules = append(rules, *r.rules[n])
	}
	var fns []string
	for f := range r.Functions {
		fns = append(fns, f)
	}
	sort.Strings(fns)
	cov := map[string]any{
		"explanation":         r.Explain + " — Flow rules are evaluated on the flattened view of each function (unexported helpers spliced in at their static call sites, exported API stays a call) and only over feasible paths (nil-ness and truth decided by earlier branches on the same value); loops and buffers are judged on engine E2's generalised events, not on syntax (DESIGN.md §3).",
		"obligations":         len(r.Obls),
		"discharged":          nDis,
		"undecided":           nUnd,
		"violated_new":        nVio,
		"known_findings":      nKnown,
		"evaluations":         len(r.Obls),
		"distinct_nontrivial": len(distinct),
		"rule":                "one obligation per (rule, program construct); distinct = distinct construct keys; every obligation is a question about resolved program objects (types.Object / ssa.Value / CFG path), none is trivial by construction",
		"samples":             samples,
		"rules":               rules,
		"functions_analysed":  fns,
		"not_decided":         r.NotDecided,
		"trusted_base":        r.Trusted,
		"checker_cmd":         fmt.Sprintf("./bin/bmcverif check -p %s -tier %s", r.Prop, tier),
		"exhaustive":          true,
		"replays":             replays,
		"arch":                r.c.Arch,
	}
	for k, v := range r.Extra {
		cov[k] = v
	}
	ev := map[string]any{
		"property_id": r.Prop,
		"tier":        tier,
		"seed":        seed,
		"level":       "other",
		"coverage":    cov,
		"assumptions": r.Trusted,
		"wall_s":      time.Since(start).Seconds(),
		"violations":  nVio + nUnd,
	}
	if err := writeJSON(filepath.Join(evDir, r.Prop+".json"), ev); err != nil {
		fmt.Fprintln(os.Stderr, "evidence:", err)
		return 1
	}
	fmt.Printf("property=%s tier=%s obligations=%d discharged=%d known=%d violated=%d undecided=%d functions=%d wall=%.1fs\n",
		r.Prop, tier, len(r.Obls), nDis, nKnown, nVio, nUnd, len(fns), time.Since(start).Seconds())
	return exit
}

func writeJSON(path string, v any) error {
	b, err := json.MarshalIndent(v, "", " ")
	if err != nil {
		return err
	}
	return os.WriteFile(path, append(b, '\n'), 0o644)
}
