// bmcverif decides the properties in /verif/properties.jsonl for gebn/bmc by
// static analysis of the working tree (go/packages → go/types → go/ssa).
package main

import (
	"encoding/json"
	"flag"
	"fmt"
	"os"
	"path/filepath"
	"runtime/debug"
	"runtime/pprof"
	"sort"
	"strconv"
	"strings"
	"time"
)

type propCheck struct {
	ID  string
	Run func(c *Ctx, r *Report)
}

var registry = map[string]func(c *Ctx, r *Report){}

func register(id string, f func(c *Ctx, r *Report)) { registry[id] = f }

func verifDir() string {
	if d := os.Getenv("VERIF_DIR"); d != "" {
		return d
	}
	exe, err := os.Executable()
	if err == nil {
		d := filepath.Dir(filepath.Dir(exe))
		if _, err := os.Stat(filepath.Join(d, "properties.jsonl")); err == nil {
			return d
		}
	}
	wd, _ := os.Getwd()
	return wd
}

func main() {
	if len(os.Args) < 2 {
		usage()
	}
	switch os.Args[1] {
	case "check":
		os.Exit(cmdCheck(os.Args[2:]))
	case "replay":
		os.Exit(cmdReplay(os.Args[2:]))
	case "layouts":
		os.Exit(cmdLayouts(os.Args[2:]))
	case "layout":
		os.Exit(cmdLayout(os.Args[2:]))
	case "selftest":
		os.Exit(cmdSelftest(os.Args[2:]))
	case "errscan":
		os.Exit(cmdErrscan(os.Args[2:]))
	case "list":
		var ids []string
		for id := range registry {
			ids = append(ids, id)
		}
		sort.Strings(ids)
		fmt.Println(strings.Join(ids, " "))
	default:
		usage()
	}
}

func usage() {
	fmt.Fprintln(os.Stderr, "usage: bmcverif check -p Cnn [-tier quick|thorough] [-repo /repo] | replay <file> | selftest | list")
	os.Exit(2)
}

func cmdCheck(args []string) int {
	if pf := os.Getenv("BMCVERIF_CPUPROFILE"); pf != "" {
		if f, err := os.Create(pf); err == nil {
			pprof.StartCPUProfile(f)
			defer pprof.StopCPUProfile()
		}
	}
	fs := flag.NewFlagSet("check", flag.ExitOnError)
	prop := fs.String("p", "", "property id")
	tier := fs.String("tier", "", "quick|thorough")
	repo := fs.String("repo", "/repo", "repository working tree")
	out := fs.String("out", "", "verif dir (evidence, known findings)")
	fs.Parse(args)
	if *tier == "" {
		*tier = os.Getenv("VERIF_TIER")
	}
	if *tier != "thorough" {
		*tier = "quick"
	}
	seed, _ := strconv.ParseInt(os.Getenv("VERIF_SEED"), 10, 64)
	vd := *out
	if vd == "" {
		vd = verifDir()
	}
	run, ok := registry[*prop]
	if !ok {
		fmt.Fprintf(os.Stderr, "unknown property %q\n", *prop)
		return 2
	}
	return runCheck(*prop, run, *repo, *tier, vd, seed)
}

func runCheck(prop string, run func(*Ctx, *Report), repo, tier, vd string, seed int64) (exit int) {
	start := time.Now()
	arches := []string{"amd64"}
	if tier == "thorough" {
		arches = append(arches, "386")
	}
	var final *Report
	var fatal error
	for _, arch := range arches {
		c, err := loadRepo(repo, tier, arch)
		if err != nil {
			if final == nil {
				final = newReport(&Ctx{Repo: repo, Arch: arch}, prop)
			}
			fatal = fmt.Errorf("load %s (%s): %v", repo, arch, err)
			break
		}
		r := newReport(c, prop)
		func() {
			defer func() {
				if p := recover(); p != nil {
					fatal = fmt.Errorf("analysis panicked (%s): %v\n%s", arch, p, debug.Stack())
				}
			}()
			run(c, r)
		}()
		if final == nil {
			final = r
		} else {
			// merge: obligations of the second architecture are kept only
			// when they differ in verdict from the first, prefixed by arch.
			base := map[string]Verdict{}
			for _, o := range final.Obls {
				base[o.Key] = o.Verdict
			}
			extra := 0
			for _, o := range r.Obls {
				if v, ok := base[o.Key]; !ok || v != o.Verdict {
					o.Key = o.Key + "@" + arch
					o.Reason = "[" + arch + "] " + o.Reason
					final.Obls = append(final.Obls, o)
					extra++
				}
			}
			final.Extra["arch_"+arch+"_obligations"] = len(r.Obls)
			final.Extra["arch_"+arch+"_differing"] = extra
		}
		if fatal != nil {
			break
		}
	}
	return final.finish(vd, tier, seed, start, fatal)
}

func cmdReplay(args []string) int {
	if len(args) < 1 {
		usage()
	}
	b, err := os.ReadFile(args[0])
	if err != nil {
		fmt.Fprintln(os.Stderr, err)
		return 2
	}
	var rp struct {
		Property   string     `json:"property"`
		Obligation Obligation `json:"obligation"`
		Tier       string     `json:"tier"`
		Repo       string     `json:"repo"`
		Fatal      string     `json:"fatal"`
	}
	if err := json.Unmarshal(b, &rp); err != nil {
		fmt.Fprintln(os.Stderr, err)
		return 2
	}
	repo := "/repo"
	if len(args) > 1 {
		repo = args[1]
	}
	run, ok := registry[rp.Property]
	if !ok {
		fmt.Fprintf(os.Stderr, "unknown property %q\n", rp.Property)
		return 2
	}
	c, err := loadRepo(repo, "quick", "amd64")
	if err != nil {
		fmt.Printf("replay: load failed: %v\n", err)
		return 1
	}
	r := newReport(c, rp.Property)
	run(c, r)
	for _, o := range r.Obls {
		if o.Key == rp.Obligation.Key && o.Verdict != Discharged {
			fmt.Printf("replay: still %s: %s %s — %s\n", o.Verdict, o.Pos, o.Key, o.Reason)
			return 1
		}
	}
	fmt.Printf("replay: obligation %s no longer violated\n", rp.Obligation.Key)
	return 0
}
