package main

import (
	"fmt"
	"go/token"
	"go/types"
	"strings"

	"golang.org/x/tools/go/ssa"
)

func init() { register("C09", checkC09) }

const counterSel = "AuthenticatedSequenceNumbers.Inbound"

// complitFields: when v is the load of a local composite-literal cell, return
// the values stored into its fields (by promoted selector string).
func complitFields(v ssa.Value) (map[string]ssa.Value, *ssa.Alloc, bool) {
	ld, ok := v.(*ssa.UnOp)
	if !ok || ld.Op != token.MUL {
		return nil, nil, false
	}
	al, ok := ld.X.(*ssa.Alloc)
	if !ok {
		return nil, nil, false
	}
	out := map[string]ssa.Value{}
	var walk func(addr ssa.Value)
	walk = func(addr ssa.Value) {
		for _, ref := range *addr.Referrers() {
			switch x := ref.(type) {
			case *ssa.FieldAddr:
				walk(x)
			case *ssa.Store:
				if x.Addr == addr && addr != ssa.Value(al) {
					a := apOf(addr)
					out[a.SelString()] = x.Val
				}
			}
		}
	}
	walk(al)
	return out, al, true
}

// isCounterInc recognises `*p = *p + 1` for the location with selector sel.
func isIncOf(st *ssa.Store, sel string) bool {
	if apOf(st.Addr).SelString() != sel {
		return false
	}
	b, ok := st.Val.(*ssa.BinOp)
	if !ok || b.Op != token.ADD {
		return false
	}
	k, isK := constInt(b.Y)
	if !isK || k != 1 {
		return false
	}
	ld, ok := b.X.(*ssa.UnOp)
	return ok && ld.Op == token.MUL && apOf(ld.X).SelString() == sel && sameRoot(ld.X, st.Addr)
}

func sameRoot(a, b ssa.Value) bool { return apOf(a).Root == apOf(b).Root }

// isIncIn is isIncOf in the flattened view of root: the stored value stems, on
// every way it can be produced (through helpers too), from counter + 1 read
// from the very counter that is stored to.
func isIncIn(root *ssa.Function, st *ssa.Store, sel string) bool {
	dst := viewAPs(root, st.Addr)
	if len(dst) != 1 || dst[0].SelString() != sel {
		return false
	}
	os := viewOrigins(root, st.Val)
	if len(os) == 0 {
		return false
	}
	for _, o := range os {
		b, ok := o.(*ssa.BinOp)
		if !ok || b.Op != token.ADD {
			return false
		}
		k, isK := constInt(b.Y)
		if !isK || k != 1 {
			return false
		}
		ld, ok := b.X.(*ssa.UnOp)
		if !ok || ld.Op != token.MUL {
			return false
		}
		src := viewAPs(root, ld.X)
		if len(src) != 1 || src[0].SelString() != sel || src[0].Root != dst[0].Root {
			return false
		}
	}
	return true
}

// exitLabel gives a stable (line-free) description of where a path leaves the
// function: the last call before the return and the kind of value returned.
func exitLabel(p CPath) string {
	ins := p.Instrs()
	last := ""
	for _, in := range ins {
		if cc := asCall(in); cc != nil {
			n := calleeName(cc)
			if n == "" && isDecodeCall(in) {
				n = "decode"
			}
			if n != "" {
				if i := strings.LastIndex(n, "/"); i >= 0 {
					n = n[i+1:]
				}
				last = n
			}
		}
	}
	ret, _ := p.Last().(*ssa.Return)
	kind := "exit"
	if ret != nil && len(ret.Results) > 0 {
		rv := p.Resolve(ret.Results[len(ret.Results)-1])
		if isNilConst(rv) {
			kind = "return-nil"
		} else {
			kind = "return-err"
		}
	}
	return kind + "-after:" + last
}

func checkC09(c *Ctx, r *Report) {
	r.Explain = "Structure of the session sequence counter: (1) who-writes — every store to V2Session.AuthenticatedSequenceNumbers.Inbound anywhere in the module is a +1 increment inside the in-session send closure and its address never escapes; (2) on every CFG path of that closure that reaches Transport.Send exactly one increment precedes the Send and the value serialised as the session layer's Sequence is the incremented counter, written after the last whole-value store to the layer; (3) every increment is followed by a Send on every path; (4) session-less wrappers carry neither ID nor Sequence. Decides the shape of the code on all paths, not wrap-around at 2^32."
	r.NotDecided = []string{"wrap-around of the 32-bit counter", "that the BMC receives datagrams in transmission order (network)"}
	r.Trusted = []string{"go/types, go/ssa (x/tools v0.29.0)", "gopacket.SerializeLayers serialises the layer values passed to it", "backoff.Retry invokes the operation sequentially"}

	scs := c.SendClosures()
	var sess []SendClosure
	var sessless []SendClosure
	for _, s := range scs {
		r.Fn(c.FnName(s.Fn))
		r.Fn(c.FnName(s.Parent))
		if s.Session {
			sess = append(sess, s)
		} else {
			sessless = append(sessless, s)
		}
	}
	inSessClosure := map[*ssa.Function]bool{}
	for _, s := range sess {
		inSessClosure[s.Fn] = true
	}

	// ---- rule 1: who writes the counter
	r.Rule("counter-writers", "every store to the inbound session sequence counter is a +1 increment inside the in-session send closure; the pair is never overwritten; the counter's address does not escape", 1)
	for _, fn := range c.LibFuncs() {
		for _, b := range fn.Blocks {
			for _, in := range b.Instrs {
				switch x := in.(type) {
				case *ssa.Store:
					sel := apOf(x.Addr).SelString()
					// the closure this function belongs to: itself, or a helper that only ever runs as part of it
					var owner *ssa.Function
					for _, sc := range sess {
						if sc.Fn == fn || c.privateTo(sc.Fn, fn) {
							owner = sc.Fn
						}
					}
					if strings.HasSuffix(sel, counterSel) && sel != counterSel && owner != nil {
						if aps := viewAPs(owner, x.Addr); len(aps) == 1 {
							sel = aps[0].SelString()
						}
					}
					if sel == counterSel && owner != nil {
						// the counter is part of the session's own storage: from the session object to
						// the counter the address crosses no pointer (a counter kept in an object the
						// session merely points to — the connection — is shared by every session on it,
						// so a second session would not start at 1)
						var sessT *types.Named
						for _, sc := range sess {
							if sc.Fn == owner {
								sessT = recvNamed(sc.Parent)
							}
						}
						okOwn, whyOwn := false, "the counter's address is not a field path from the session object"
						cur := x.Addr
						for i := 0; i < 8; i++ {
							fa, isFA := cur.(*ssa.FieldAddr)
							if !isFA {
								break
							}
							base := fa.X
							if _, inner := base.(*ssa.FieldAddr); inner {
								cur = base
								continue
							}
							// base is a pointer value: it must be the session itself
							pt, isPtr := base.Type().Underlying().(*types.Pointer)
							if isPtr {
								if n, isN := pt.Elem().(*types.Named); isN && sessT != nil && n.Obj() == sessT.Obj() {
									okOwn = true
								} else {
									whyOwn = "the counter lives in a " + types.TypeString(pt.Elem(), nil) + " that the session points to, not in the session itself: sessions sharing that object share the counter"
								}
							}
							break
						}
						r.Check(okOwn, c.FnName(fn)+"|counter owned by the session", x.Pos(), "a field of the session object's own storage", whyOwn)
					}
					if sel == counterSel {
						if owner == nil {
							r.Bad(c.FnName(fn)+"|store "+sel, x.Pos(), "the counter is written outside the in-session send closure")
						} else if !isIncIn(owner, x, counterSel) {
							r.Bad(c.FnName(fn)+"|store "+sel, x.Pos(), "store to the counter is not `counter = counter + 1`")
						} else {
							r.OK(c.FnName(fn)+"|store "+sel, x.Pos(), "+1 increment in the in-session send closure")
						}
					} else if sel == "AuthenticatedSequenceNumbers" || strings.HasSuffix(sel, ".AuthenticatedSequenceNumbers") {
						r.Bad(c.FnName(fn)+"|store "+sel, x.Pos(), "whole sequence-number pair overwritten")
					}
				case *ssa.FieldAddr:
					if apOf(x).SelString() == counterSel {
						for _, ref := range *x.Referrers() {
							switch y := ref.(type) {
							case *ssa.UnOp:
							case *ssa.Store:
								if y.Addr != ssa.Value(x) {
									r.Unk(c.FnName(fn)+"|escape "+counterSel, y.Pos(), "address of the counter is stored")
								}
							case *ssa.DebugRef:
							default:
								r.Unk(c.FnName(fn)+"|escape "+counterSel, ref.Pos(), fmt.Sprintf("address of the counter used by %T: writers cannot be enumerated", ref))
							}
						}
					}
				}
			}
		}
	}

	// ---- rules 2 and 3 on the in-session closure
	for _, s := range sess {
		fname := c.FnName(s.Fn)
		if hasLoop(s.Fn) {
			r.Rule("inc-before-send", "", 1)
			r.Unk(fname+"|loop", s.Fn.Pos(), "send closure contains a loop; path rules need an acyclic closure")
			continue
		}
		complete := enumPaths(s.Fn, 1, 4096, func(p CPath) {
			ins := p.Instrs()
			var incs []int
			sendAt, serAt := -1, -1
			var seqVal ssa.Value
			seqValAt := -1
			for k, in := range ins {
				switch x := in.(type) {
				case *ssa.Store:
					sel := p.AP(x.Addr).SelString()
					switch {
					case sel == counterSel:
						incs = append(incs, k)
					case sel == fSess:
						// whole-value store: Sequence comes from the literal (zero if absent)
						seqVal, seqValAt = nil, -1
						if f := p.objFields(p.objOf(x.Val)); len(f) > 0 {
							if v, has := f["Sequence"]; has {
								seqVal, seqValAt = v, k
							}
						}
					case sel == fSess+".Sequence":
						seqVal, seqValAt = x.Val, k
					}
				case *ssa.Call:
					if isCallTo(in, fnSerializeLayers) && serAt < 0 {
						serAt = k
					}
					if in == ssa.Instruction(s.Send) {
						sendAt = k
					}
				}
			}
			label := exitLabel(p)
			if sendAt >= 0 {
				r.Rule("inc-before-send", "on every closure path reaching Transport.Send exactly one counter increment precedes the Send", 1)
				n := 0
				for _, k := range incs {
					if k < sendAt {
						n++
					}
				}
				r.Check(n == 1, fname+"|path "+label, s.Send.Pos(), "exactly one increment precedes the Send", fmt.Sprintf("%d increments precede the Send on this path (want exactly 1)", n))

				r.Rule("sequence-is-incremented-counter", "the value serialised as V2Session.Sequence is the counter read after the increment, stored after the last whole-value store to the layer and before SerializeLayers", 1)
				ok := false
				reason := ""
				switch {
				case serAt < 0 || serAt > sendAt:
					reason = "no SerializeLayers call precedes the Send on this path"
				case seqVal == nil:
					reason = "no store to the session layer's Sequence field on this path after the last whole-value store to the layer"
				case seqValAt > serAt:
					reason = "Sequence is stored after SerializeLayers"
				case len(incs) == 0:
					reason = "no increment on this path"
				default:
					// as values along the path: with c the counter when the closure began, the number
					// serialised is c+1 and so is the counter when the datagram is sent — whether the
					// code computes c+1 once and commits it, increments first and reads back, or
					// computes it twice
					occs := p.OccsPos()
					inc := ins[incs[0]].(*ssa.Store)
					root := p.AP(inc.Addr).Root
					seqPV := p.evalAt(occs, seqValAt, occs[seqValAt].Ctx, seqVal)
					cnt := p.fieldAt(occs, sendAt, root, counterSel)
					switch {
					case cnt.Loc == "" || cnt.Off != 1:
						reason = "the counter is not its starting value + 1 when the datagram is sent"
					case seqPV.Loc == cnt.Loc && seqPV.Off == 0:
						reason = "Sequence is the counter value read before the increment (post-increment: the previous number is re-used)"
					case !seqPV.same(cnt):
						reason = "Sequence is not derived from the inbound counter: " + apOf(p.Resolve(seqVal)).String()
					default:
						ok = true
					}
				}
				r.Check(ok, fname+"|path "+label, s.Send.Pos(), "Sequence = counter after increment", reason)
			}
			if len(incs) > 0 {
				r.Rule("inc-implies-send", "every counter increment is followed by a Transport.Send on every path (no number is consumed without a datagram)", 1)
				r.Check(sendAt > incs[0], fname+"|path "+label, ins[incs[0]].Pos(), "increment is followed by the Send", "the counter is advanced on this path but no datagram is transmitted (a sequence number is skipped)")
			}
		})
		if !complete {
			r.Rule("inc-before-send", "", 1)
			r.Unk(fname+"|paths", s.Fn.Pos(), "too many paths")
		}
	}
	if len(sess) == 0 {
		r.Rule("inc-before-send", "", 1)
		r.Lost("in-session send closure (function passed to backoff.Retry in a *bmc.V2Session method that calls Transport.Send)")
	}

	// ---- rule 4: session-less wrappers
	r.Rule("sessionless-null-wrapper", "every session-less packet is serialised from a session wrapper that was freshly set to a literal with neither ID nor Sequence (the decoder overwrites the wrapper with each reply), and neither field is stored individually", 2)
	seenFn := map[*ssa.Function]bool{}
	for _, s := range sessless {
		for _, fn := range []*ssa.Function{s.Parent, s.Fn} {
			if seenFn[fn] {
				continue
			}
			seenFn[fn] = true
			allInstrs(fn, false, func(in ssa.Instruction) {
				if st, ok := in.(*ssa.Store); ok {
					sel := apOf(st.Addr).SelString()
					if sel == fSess+".ID" || sel == fSess+".Sequence" {
						r.Bad(c.FnName(fn)+"|store "+sel, st.Pos(), "session-less wrapper given a session ID or sequence number")
					}
				}
				call, ok := in.(*ssa.Call)
				if !ok || !isCallTo(in, fnSerializeLayers) {
					return
				}
				uses := false
				for _, a := range serializeLayerArgs(call) {
					if a != nil && apOf(stripConv(a)).SelString() == fSess {
						uses = true
					}
				}
				if !uses {
					return
				}
				// the whole-value store that reaches this call on every path, with no decode in between
				var lit map[string]ssa.Value
				var pos = call.Pos()
				found := false
				allInstrs(fn, false, func(in2 ssa.Instruction) {
					sel, _, st, isSt := storeSel(in2)
					if !isSt || sel != fSess || !mustPrecede(fn, st, call) {
						return
					}
					dirty := false
					allInstrs(fn, false, func(in3 ssa.Instruction) {
						if isDecodeCall(in3) && canReach(st, in3) && canReach(in3, call) {
							dirty = true
						}
					})
					if dirty {
						return
					}
					if f, _, isLit := complitFields(st.Val); isLit {
						lit, found, pos = f, true, st.Pos()
					}
				})
				if !found {
					r.Bad(c.FnName(fn)+"|SerializeLayers(v2SessionLayer)", call.Pos(), "the session-less wrapper is not reset to a null literal before being serialised: it can carry the session ID and sequence number of the last decoded reply")
					return
				}
				_, hasID := lit["ID"]
				_, hasSeq := lit["Sequence"]
				r.Check(!hasID && !hasSeq, c.FnName(fn)+"|literal v2SessionLayer", pos, "null session wrapper (no ID, no Sequence)", "session-less wrapper literal sets ID or Sequence")
			})
		}
	}

	// ---- rule 5: what a session-less send transmits was serialised for it. The serialise
	// buffer is shared with the sessions opened from the connection, so a datagram left in it
	// may be an in-session one (with a session ID and a sequence number already used).
	checkSessionlessSerialisedAfresh(c, r, sessless)

	// ---- rule 6: one Transport.Send is one datagram. The counter rules above count calls of
	// Send; they say something about datagrams only if the transport writes the packet it is
	// given exactly once (rule shared with C11, C10)
	checkOneWriteOneRead(c, r)

	// ---- rule 7: and there is no other way out: every Transport.Send call is in a retried
	// operation, where the rules above apply (shared with C04, C10, C13, C18)
	checkSendSites(c, r)

	// ---- rule 8: which session a datagram claims to belong to does not change under it
	checkSessionIDWriters(c, r)
}

// checkSessionlessSerialisedAfresh: rule 5 of C09, shared with C10 ("each retransmission is a
// complete encoding of that same command": a command value sent again after its request was
// changed must be encoded again, not replayed from the buffer).
func checkSessionlessSerialisedAfresh(c *Ctx, r *Report, sessless []SendClosure) {
	if sessless == nil {
		for _, s := range c.SendClosures() {
			if !s.Session {
				sessless = append(sessless, s)
			}
		}
	}
	r.Rule("sessionless-serialised-afresh", "every session-less transmission is preceded, in the same operation, by the serialisation of its packet into the buffer: a packet left in the buffer by an earlier (possibly in-session) command is never sent again", 2)
	for _, s := range sessless {
		if s.Send == nil {
			continue
		}
		ok := false
		viewInstrs(s.Fn, func(in ssa.Instruction) {
			if isCallTo(in, fnSerializeLayers) && mustPrecede(s.Fn, in, s.Send) {
				ok = true
			}
		})
		if !ok && s.Parent != nil && s.Retry != nil {
			viewInstrs(s.Parent, func(in ssa.Instruction) {
				if isCallTo(in, fnSerializeLayers) && mustPrecede(s.Parent, in, s.Retry) {
					ok = true
				}
			})
		}
		r.Check(ok, c.FnName(s.Parent)+"|serialised before send", s.Send.Pos(), "SerializeLayers precedes the transmission on every path", "a path reaches the transmission without the packet having been serialised in this operation: whatever the shared buffer holds — possibly an in-session datagram of a session opened from this connection — is sent again")
	}
}
