package main

import (
	"fmt"
	"os"

	"golang.org/x/tools/go/ssa"
)

// cmdErrscan lists, for every library function, the module calls whose error a
// success path of the function's flattened view never examines (development aid
// for the errors-examined rules).
func cmdErrscan(args []string) int {
	repo := "/repo"
	if len(args) > 0 {
		repo = args[0]
	}
	c, err := loadRepo(repo, "quick", "amd64")
	if err != nil {
		fmt.Fprintln(os.Stderr, err)
		return 1
	}
	for _, fn := range c.LibFuncs() {
		if fn.Parent() != nil || errResultIndex(fn) < 0 {
			continue
		}
		seen := map[string]bool{}
		enumPaths(fn, 1, 20000, func(p CPath) {
			ret, isRet := p.Last().(*ssa.Return)
			if !isRet || ret.Parent() != fn || c.errOutcome(fn, p) == 1 {
				return
			}
			for _, call := range p.untestedErrors(func(f *ssa.Function) bool { return c.InModule(f) }, modPath) {
				k := c.FnName(fn) + ": " + shortName(calleeName(&call.Call)) + " @ " + c.Pos(call.Pos())
				if !seen[k] {
					seen[k] = true
					fmt.Println(k)
				}
			}
		})
	}
	return 0
}

// checkErrorsExamined is the shared rule "no failure is passed over": for each of the given
// functions (judged with their flattened views), on every path that does not return an
// error, every error returned by a call into the module was compared with nil (or is what
// the function returns). A dropped error is a success reported over a failure.
func checkErrorsExamined(c *Ctx, r *Report, rule, doc string, min int, fns []*ssa.Function) {
	r.Rule(rule, doc, min)
	for _, fn := range fns {
		if fn == nil || fn.Blocks == nil || errResultIndex(fn) < 0 {
			continue
		}
		name := c.FnName(fn)
		r.Fn(name)
		ok := true
		why := ""
		pos := fn.Pos()
		complete := enumPaths(fn, 1, 200000, func(p CPath) {
			ret, isRet := p.Last().(*ssa.Return)
			if !isRet || ret.Parent() != fn || c.errOutcome(fn, p) == 1 {
				return
			}
			for _, call := range p.untestedErrors(func(f *ssa.Function) bool { return c.InModule(f) }, modPath) {
				ok = false
				why = "success is reported although the error of " + shortName(calleeName(&call.Call)) + " was never examined"
				pos = call.Pos()
			}
		})
		if !complete {
			r.Unk(name+"|errors examined", fn.Pos(), "too many paths")
			continue
		}
		r.Check(ok, name+"|errors examined", pos, "every module error is compared with nil before success is reported", why)
	}
}

// ctxFuncs lists the library functions that take a context and return an error, except
// helpers that only ever run spliced into another function's view (judged there).
func (c *Ctx) ctxFuncs() []*ssa.Function {
	var out []*ssa.Function
	for _, fn := range c.LibFuncs() {
		if fn.Parent() != nil || errResultIndex(fn) < 0 {
			continue
		}
		has := false
		for _, p := range fn.Params {
			if isContextType(p.Type()) {
				has = true
			}
		}
		if !has || c.onlySpliced(fn) {
			continue
		}
		out = append(out, fn)
	}
	return out
}
