package main

import (
	"go/token"
	"strings"
	"sync"

	"golang.org/x/tools/go/ssa"
)

// Decision is one conditional branch taken on a path, classified by what the
// condition tests.
type Decision struct {
	Kind string // send-err | decode-err | innermost-err | serialize-err | temporary | flag:<cell> | other
	Arm  bool   // true: condition held
	If   *ssa.If
	Err  ssa.Value // for *-err kinds: the error value tested against nil
}

// errSource classifies where an error value comes from.
func errSource(v ssa.Value) string {
	if !isErrorType(v.Type()) {
		return "" // a nil test of something that is not an error
	}
	switch x := v.(type) {
	case *ssa.Extract:
		if call, ok := x.Tuple.(*ssa.Call); ok {
			if isCallTo(call, fnTransportSend) {
				return "send-err"
			}
			if isDecodeCall(call) {
				return "decode-err"
			}
			return "err:" + shortName(calleeName(&call.Call))
		}
	case *ssa.Call:
		if isCallTo(x, fnInnermostEquals) {
			return "innermost-err"
		}
		if isCallTo(x, fnSerializeLayers) {
			return "serialize-err"
		}
		return "err:" + shortName(calleeName(&x.Call))
	}
	return ""
}

func shortName(n string) string {
	if i := strings.LastIndex(n, "/"); i >= 0 {
		n = n[i+1:]
	}
	return n
}

// classifyIf describes the condition of an If such that Arm=true means "the
// described condition holds".
func classifyIf(ifi *ssa.If) (kind string, errv ssa.Value, invert bool) {
	op, x, y, neg, isBin := condOf(ifi.Cond)
	if isBin && (op == token.NEQ || op == token.EQL) {
		var e ssa.Value
		if isNilConst(y) {
			e = x
		} else if isNilConst(x) {
			e = y
		}
		if e != nil {
			if k := errSource(e); k != "" {
				// kind means "error is non-nil"
				inv := neg
				if op == token.EQL {
					inv = !inv
				}
				return k, e, inv
			}
		}
	}
	if !isBin {
		if call, ok := x.(*ssa.Call); ok {
			if isCallTo(call, fnIsTemporary) {
				return "temporary", nil, neg
			}
			return "call:" + shortName(calleeName(&call.Call)), nil, neg
		}
		if ld, ok := x.(*ssa.UnOp); ok && ld.Op == token.MUL {
			a := apOf(ld.X)
			if al, ok := a.Root.(*ssa.Alloc); ok && len(a.Sel) == 0 {
				return "flag:" + al.Comment, nil, neg
			}
			if fv, ok := ld.X.(*ssa.FreeVar); ok {
				return "flag:" + fv.Name(), nil, neg
			}
			return "load:" + a.String(), nil, neg
		}
	}
	return "other", nil, false
}

// pathDecisions classifies the branches taken along a path. Conditions are
// followed through negations, phis and the results of spliced helpers to what
// they test in the end, so that a test made inside a helper, a test of the
// helper's result in its caller, or the same test written inline all give the
// same decision — once: a second test of a value already decided on the path
// adds nothing and is dropped, as is a test the path itself has settled (the
// helper returned a constant nil, or a freshly made error).
func pathDecisions(p CPath) []Decision {
	var out []Decision
	seenErr := map[ssa.Value]bool{}
	for _, tk := range p.Ifs() {
		ifi := tk.If
		v := ifi.Cond
		holds := tk.Arm
		for i := 0; i < 16; i++ {
			if u, ok := v.(*ssa.UnOp); ok && u.Op == token.NOT {
				holds = !holds
				v = u.X
				continue
			}
			nv := p.Resolve(v)
			if nv == v {
				break
			}
			v = nv
		}
		if bo, isBin := v.(*ssa.BinOp); isBin {
			if bo.Op == token.NEQ || bo.Op == token.EQL {
				var e ssa.Value
				if isNilConst(bo.Y) {
					e = bo.X
				} else if isNilConst(bo.X) {
					e = bo.Y
				}
				if e != nil {
					e = p.Resolve(e)
					if isNilConst(e) || knownNonNil(e) {
						continue // settled by the path itself
					}
					if seenErr[e] {
						continue
					}
					seenErr[e] = true
					if k := errSource(e); k != "" {
						arm := holds
						if bo.Op == token.EQL {
							arm = !arm
						}
						out = append(out, Decision{Kind: k, Arm: arm, If: ifi, Err: e})
						continue
					}
				}
			}
			out = append(out, Decision{Kind: "other", Arm: tk.Arm, If: ifi})
			continue
		}
		if k, isK := v.(*ssa.Const); isK && k.Value != nil {
			continue // settled
		}
		switch x := v.(type) {
		case *ssa.Call:
			if isCallTo(x, fnIsTemporary) {
				out = append(out, Decision{Kind: "temporary", Arm: holds, If: ifi})
			} else {
				out = append(out, Decision{Kind: "call:" + shortName(calleeName(&x.Call)), Arm: holds, If: ifi})
			}
		case *ssa.UnOp:
			if x.Op == token.MUL {
				a := p.AP(x.X)
				switch {
				case isAllocRoot(a):
					out = append(out, Decision{Kind: "flag:" + a.Root.(*ssa.Alloc).Comment, Arm: holds, If: ifi})
				case isFreeVar(x.X):
					out = append(out, Decision{Kind: "flag:" + x.X.(*ssa.FreeVar).Name(), Arm: holds, If: ifi})
				default:
					out = append(out, Decision{Kind: "load:" + a.String(), Arm: holds, If: ifi})
				}
				continue
			}
			out = append(out, Decision{Kind: "other", Arm: tk.Arm, If: ifi})
		default:
			out = append(out, Decision{Kind: "other", Arm: tk.Arm, If: ifi})
		}
	}
	return out
}

func isAllocRoot(a AP) bool {
	_, ok := a.Root.(*ssa.Alloc)
	return ok && len(a.Sel) == 0
}

func isFreeVar(v ssa.Value) bool {
	_, ok := v.(*ssa.FreeVar)
	return ok
}

func decisionsString(ds []Decision) string {
	var parts []string
	for _, d := range ds {
		s := d.Kind
		if !d.Arm {
			s = "!" + s
		}
		parts = append(parts, s)
	}
	return strings.Join(parts, ",")
}

func hasDecision(ds []Decision, kind string, arm bool) bool {
	for _, d := range ds {
		if d.Kind == kind && d.Arm == arm {
			return true
		}
	}
	return false
}

// nonNilOnPath: is the returned error value known to be non-nil on this path?
// Accepted: (i) the very value tested non-nil on a taken arm of this path;
// (ii) a load of a package-level error variable whose only store is its
// initialiser errors.New/fmt.Errorf; (iii) a direct call of errors.New /
// fmt.Errorf.
func (c *Ctx) nonNilOnPath(p CPath, ds []Decision, v ssa.Value) bool {
	v = p.Resolve(v)
	for _, d := range ds {
		if d.Err != nil && d.Arm && d.Err == v {
			return true
		}
	}
	if call, ok := v.(*ssa.Call); ok {
		n := calleeName(&call.Call)
		return n == "errors.New" || n == "fmt.Errorf"
	}
	if ld, ok := v.(*ssa.UnOp); ok && ld.Op == token.MUL {
		if g, ok := ld.X.(*ssa.Global); ok {
			return c.sentinelError(g)
		}
	}
	return false
}

// sentinelError: package-level error variable initialised exactly once, in
// the package initialiser, by errors.New or fmt.Errorf, and never written
// again anywhere in the module.
func (c *Ctx) sentinelError(g *ssa.Global) bool {
	sentinelMu.Lock()
	if v, ok := sentinelCache[g]; ok {
		sentinelMu.Unlock()
		return v
	}
	sentinelMu.Unlock()
	v := c.sentinelErrorUncached(g)
	sentinelMu.Lock()
	sentinelCache[g] = v
	sentinelMu.Unlock()
	return v
}

var (
	sentinelMu    sync.Mutex
	sentinelCache = map[*ssa.Global]bool{}
)

func (c *Ctx) sentinelErrorUncached(g *ssa.Global) bool {
	n := 0
	good := false
	for _, fn := range c.ModFn {
		rawInstrs(fn, false, func(in ssa.Instruction) {
			if st, ok := in.(*ssa.Store); ok && st.Addr == ssa.Value(g) {
				n++
				if call, ok := st.Val.(*ssa.Call); ok && fn.Name() == "init" {
					cn := calleeName(&call.Call)
					if cn == "errors.New" || cn == "fmt.Errorf" {
						good = true
					}
				}
			}
		})
	}
	return n == 1 && good
}

// capturedCellStore: is `in` a store of val into a free variable cell of the closure?
func capturedCellStore(in ssa.Instruction) (cell *ssa.FreeVar, val ssa.Value, ok bool) {
	st, isSt := in.(*ssa.Store)
	if !isSt {
		return nil, nil, false
	}
	fv, isFv := st.Addr.(*ssa.FreeVar)
	if !isFv {
		return nil, nil, false
	}
	return fv, st.Val, true
}
